#!/bin/sh
# Offline setup: nothing to download.  Warm up Verus (first run compiles its caches) and make scratch dirs.
set -e
cd "$(dirname "$0")"
mkdir -p build evidence
cat > build/canary.rs <<'EOC'
use vstd::prelude::*;
verus! { proof fn canary() { assert(1 + 1 == 2int); } }
fn main() {}
EOC
verus build/canary.rs >/dev/null 2>&1 || { echo "verus not working"; exit 1; }
echo setup ok
