impl BytesMut {
    #[verifier::external_body]
    pub fn put_u16(&mut self, n: u16) ensures final(self)@ == old(self)@ + seq![(n >> 8) as u8, (n & 0xff) as u8] { self.v.extend_from_slice(&n.to_be_bytes()) }
    #[verifier::external_body]
    pub fn put_u64(&mut self, n: u64) ensures final(self)@ == old(self)@ + be64_bytes(n) { self.v.extend_from_slice(&n.to_be_bytes()) }
}
pub open spec fn be64_bytes(n: u64) -> Seq<u8> {
    seq![(n >> 56) as u8, ((n >> 48) & 0xff) as u8, ((n >> 40) & 0xff) as u8, ((n >> 32) & 0xff) as u8,
         ((n >> 24) & 0xff) as u8, ((n >> 16) & 0xff) as u8, ((n >> 8) & 0xff) as u8, (n & 0xff) as u8]
}
