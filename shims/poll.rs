pub enum Poll<T> { Ready(T), Pending }
