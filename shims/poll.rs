pub enum Poll<T> { Ready(T), Pending }
impl<T> Poll<T> {
    pub fn is_ready(&self) -> (r: bool) ensures r == (*self is Ready) { matches!(self, Poll::Ready(_)) }
    pub fn is_pending(&self) -> (r: bool) ensures r == (*self is Pending) { matches!(self, Poll::Pending) }
}
