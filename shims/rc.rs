// std::rc::Rc / RefCell: value view + uniqueness (strong == 1, no weak), assumed std semantics
#[verifier::external_body]
#[verifier::reject_recursive_types(T)]
pub struct Rc<T> { x: std::rc::Rc<T> }
impl<T> Rc<T> {
    pub uninterp spec fn val(&self) -> T;
    pub uninterp spec fn unique(&self) -> bool;
    #[verifier::external_body]
    pub fn new(v: T) -> (r: Rc<T>) ensures r.val() == v, r.unique() { Rc { x: std::rc::Rc::new(v) } }
    #[verifier::external_body]
    pub fn get_mut(this: &mut Rc<T>) -> (r: Option<&mut T>)
        ensures match r {
            Some(m) => old(this).unique() && *m == old(this).val() && final(this).val() == *final(m) && final(this).unique(),
            None => !old(this).unique() && *final(this) == *old(this),
        }
    { std::rc::Rc::get_mut(&mut this.x) }
    #[verifier::external_body]
    pub fn clone(this: &Rc<T>) -> (r: Rc<T>) ensures r.val() == this.val(), r == *this { Rc { x: this.x.clone() } }
    #[verifier::external_body]
    pub fn borrow(&self) -> (r: &T) ensures *r == self.val() { &*self.x }
}
#[verifier::external_body]
#[verifier::reject_recursive_types(T)]
pub struct RefCell<T> { x: std::cell::RefCell<T> }
impl<T> RefCell<T> {
    pub uninterp spec fn val(&self) -> T;
    #[verifier::external_body]
    pub fn new(v: T) -> (r: RefCell<T>) ensures r.val() == v { RefCell { x: std::cell::RefCell::new(v) } }
    #[verifier::external_body]
    pub fn get_mut(&mut self) -> (r: &mut T) ensures *r == old(self).val(), final(self).val() == *final(r) { self.x.get_mut() }
}
