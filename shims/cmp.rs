// std::cmp::{min, max} on unsigned integers
pub mod cmp {
    use vstd::prelude::*;
    pub trait MinOrd: Copy {
        spec fn spec_min(a: Self, b: Self) -> Self;
        spec fn spec_max(a: Self, b: Self) -> Self;
        fn do_min(a: Self, b: Self) -> (r: Self) ensures r == Self::spec_min(a, b);
        fn do_max(a: Self, b: Self) -> (r: Self) ensures r == Self::spec_max(a, b);
    }
    impl MinOrd for u64 {
        open spec fn spec_min(a: u64, b: u64) -> u64 { if a <= b { a } else { b } }
        open spec fn spec_max(a: u64, b: u64) -> u64 { if a >= b { a } else { b } }
        fn do_min(a: u64, b: u64) -> (r: u64) { if a <= b { a } else { b } }
        fn do_max(a: u64, b: u64) -> (r: u64) { if a >= b { a } else { b } }
    }
    impl MinOrd for usize {
        open spec fn spec_min(a: usize, b: usize) -> usize { if a <= b { a } else { b } }
        open spec fn spec_max(a: usize, b: usize) -> usize { if a >= b { a } else { b } }
        fn do_min(a: usize, b: usize) -> (r: usize) { if a <= b { a } else { b } }
        fn do_max(a: usize, b: usize) -> (r: usize) { if a >= b { a } else { b } }
    }
    pub fn min<T: MinOrd>(a: T, b: T) -> (r: T) ensures r == T::spec_min(a, b) { T::do_min(a, b) }
    pub fn max<T: MinOrd>(a: T, b: T) -> (r: T) ensures r == T::spec_max(a, b) { T::do_max(a, b) }
}
