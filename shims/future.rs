// std::future::Future as a pollable shim: `outcome()` is the prophesied result; Pending registers the waker.
pub uninterp spec fn future_registered(wid: int) -> bool;
pub trait PollFuture {
    type Output;
    spec fn outcome(&self) -> Self::Output;
    spec fn fid(&self) -> int;      // identity of the future, stable across polls
    fn poll(&mut self, cx: &mut Context<'_>) -> (r: Poll<Self::Output>)
        ensures
            final(cx).spec_waker() == old(cx).spec_waker(),
            match r { Poll::Ready(v) => v == old(self).outcome(), Poll::Pending => final(self).outcome() == old(self).outcome() && final(self).fid() == old(self).fid() && future_registered(old(cx).spec_waker().wid()) };
}
