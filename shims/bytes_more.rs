impl BytesMut {
    #[verifier::external_body]
    pub fn starts_with(&self, p: &[u8]) -> (r: bool) ensures r == (p@.len() <= self@.len() && self@.take(p@.len() as int) =~= p@) { self.v.starts_with(p) }
    #[verifier::external_body]
    pub fn from_slice(s: &[u8]) -> (r: BytesMut) ensures r@ == s@ { BytesMut { v: s.to_vec() } }
    #[verifier::external_body]
    pub fn extend_from_bytes(&mut self, s: &Bytes) ensures final(self)@ == old(self)@ + s@ { self.v.extend_from_slice(&s.v) }
    #[verifier::external_body]
    pub fn extend_from_bytesmut(&mut self, s: &BytesMut) ensures final(self)@ == old(self)@ + s@ { self.v.extend_from_slice(&s.v) }
}
// slice equality as used in parsers (`&buf[a..b] == b"--"`): R16 routes it through this helper
#[verifier::external_body]
pub fn bytes_eq(a: &[u8], b: &[u8]) -> (r: bool) ensures r == (a@ =~= b@) { a == b }
