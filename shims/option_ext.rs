pub assume_specification<T, F: FnOnce(T) -> bool> [Option::<T>::is_some_and] (o: Option<T>, f: F) -> (r: bool)
    requires o matches Some(x) ==> f.requires((x,)),
    ensures match o { Some(x) => f.ensures((x,), r), None => !r };
pub assume_specification<T, E> [Result::<T, E>::unwrap_or] (r: Result<T, E>, d: T) -> (o: T)
    ensures o == (match r { Ok(v) => v, Err(_) => d });
