// http::header::{HeaderName, HeaderValue}: opaque values.  HeaderName is already lower-cased by the
// `http` crate (assumed), so key equality IS case-insensitive name equality.
impl std::hash::Hash for HeaderName { fn hash<H: std::hash::Hasher>(&self, h: &mut H) { self.s.hash(h) } }
impl PartialEq for HeaderName { fn eq(&self, o: &Self) -> bool { self.s == o.s } }
impl Eq for HeaderName {}
// @inside
#[verifier::external_body]
pub struct HeaderName { pub s: String }
#[verifier::external_body]
pub struct HeaderValue { pub v: Vec<u8> }
impl HeaderName {
    #[verifier::external_body]
    pub fn clone(&self) -> (r: HeaderName) ensures r == *self { HeaderName { s: self.s.clone() } }
}
pub mod hdr_axioms {
    use super::*;
    #[verifier::external_body]
    pub broadcast proof fn axiom_headername_key_model()
        ensures #[trigger] vstd::std_specs::hash::obeys_key_model::<HeaderName>()
    {}
}
pub struct InvalidHeaderName;
pub enum Cow<'a, T> { Borrowed(&'a T), Owned(T) }
pub struct Seal;
// super::AsHeaderName (sealed trait): anything that can be looked up as a header name; `spec_name` is the
// name it denotes (None for strings that are not valid header names).
pub trait AsHeaderName: Sized {
    spec fn spec_name(&self) -> Option<HeaderName>;
    fn try_as_name(&self, seal: Seal) -> (r: Result<Cow<'_, HeaderName>, InvalidHeaderName>)
        ensures match self.spec_name() {
            Some(n) => (r matches Ok(Cow::Borrowed(b)) && *b == n) || (r matches Ok(Cow::Owned(o)) && o == n),
            None => r is Err,
        };
}
pub mod super_as_name { pub use super::Seal; }
