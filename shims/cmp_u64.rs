pub mod cmp {
    use vstd::prelude::*;
    pub fn min(a: u64, b: u64) -> (r: u64) ensures r == (if a <= b { a } else { b }) { if a <= b { a } else { b } }
    pub fn max(a: u64, b: u64) -> (r: u64) ensures r == (if a >= b { a } else { b }) { if a >= b { a } else { b } }
}
