use std::mem;
// @inside
pub assume_specification<T> [std::mem::replace] (dest: &mut T, src: T) -> (r: T)
    ensures r == *old(dest), *final(dest) == src;
pub assume_specification<T: Default> [std::mem::take] (dest: &mut T) -> (r: T)
    ensures r == *old(dest);
