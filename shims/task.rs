// std::task::{Waker, Context}: a waker is identified by the task it wakes (`wid`).  `woken(id)` is a
// token that only Waker::wake / wake_by_ref establish, so a postcondition `woken(w.wid())` can be proved
// only by code that really calls wake on that waker.
pub uninterp spec fn woken(id: int) -> bool;
#[verifier::external_body]
pub struct Waker { id: u64 }
impl Waker {
    pub uninterp spec fn wid(&self) -> int;
    #[verifier::external_body]
    pub fn wake(self) ensures woken(self.wid()) {}
    #[verifier::external_body]
    pub fn wake_by_ref(&self) ensures woken(self.wid()) {}
    #[verifier::external_body]
    pub fn clone(&self) -> (r: Waker) ensures r.wid() == self.wid() { Waker { id: self.id } }
    #[verifier::external_body]
    pub fn will_wake(&self, other: &Waker) -> (r: bool) ensures r ==> self.wid() == other.wid() { self.id == other.id }
}
#[verifier::external_body]
pub struct Context<'a> { w: &'a Waker }
impl<'a> Context<'a> {
    pub uninterp spec fn spec_waker(&self) -> Waker;
    #[verifier::external_body]
    pub fn waker(&self) -> (r: &Waker) ensures *r == self.spec_waker() { self.w }
}
