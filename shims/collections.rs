use std::collections::VecDeque;
use vstd::std_specs::vecdeque::*;
// @inside
