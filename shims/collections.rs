use std::collections::VecDeque;
use vstd::std_specs::vecdeque::*;
// @inside
pub assume_specification<T, A: std::alloc::Allocator> [std::collections::VecDeque::<T, A>::is_empty] (v: &std::collections::VecDeque<T, A>) -> (r: bool)
    ensures r == (v@.len() == 0);
