pub mod cmp {
    use vstd::prelude::*;
    pub fn min(a: usize, b: usize) -> (r: usize) ensures r == (if a <= b { a } else { b }) { if a <= b { a } else { b } }
    pub fn max(a: usize, b: usize) -> (r: usize) ensures r == (if a >= b { a } else { b }) { if a >= b { a } else { b } }
}
