#[verifier::external_body]
pub struct BytesMut { v: Vec<u8> }
#[verifier::external_body]
pub struct Bytes { v: Vec<u8> }
impl View for BytesMut { type V = Seq<u8>; uninterp spec fn view(&self) -> Seq<u8>; }
impl View for Bytes { type V = Seq<u8>; uninterp spec fn view(&self) -> Seq<u8>; }
impl BytesMut {
    #[verifier::external_body]
    pub fn new() -> (r: BytesMut) ensures r@ == Seq::<u8>::empty() { BytesMut { v: Vec::new() } }
    #[verifier::external_body]
    pub fn with_capacity(n: usize) -> (r: BytesMut) ensures r@ == Seq::<u8>::empty() { BytesMut { v: Vec::with_capacity(n) } }
    #[verifier::external_body]
    pub fn len(&self) -> (r: usize) ensures r == self@.len(), r <= 0x7fff_ffff_ffff_ffffusize /* Rust allocations never exceed isize::MAX bytes */ { self.v.len() }
    #[verifier::external_body]
    pub fn is_empty(&self) -> (r: bool) ensures r == (self@.len() == 0) { self.v.is_empty() }
    #[verifier::external_body]
    pub fn at(&self, i: usize) -> (r: u8) requires i < self@.len() ensures r == self@[i as int] { self.v[i] }
    #[verifier::external_body]
    pub fn slice(&self, a: usize, b: usize) -> (r: &[u8]) requires a <= b <= self@.len() ensures r@ == self@.subrange(a as int, b as int) { &self.v[a..b] }
    #[verifier::external_body]
    pub fn slice_from(&self, a: usize) -> (r: &[u8]) requires a <= self@.len() ensures r@ == self@.skip(a as int) { &self.v[a..] }
    #[verifier::external_body]
    pub fn slice_to(&self, b: usize) -> (r: &[u8]) requires b <= self@.len() ensures r@ == self@.take(b as int) { &self.v[..b] }
    #[verifier::external_body]
    pub fn slice_all(&self) -> (r: &[u8]) ensures r@ == self@ { &self.v[..] }
    #[verifier::external_body]
    pub fn advance(&mut self, n: usize) requires n <= old(self)@.len() ensures final(self)@ == old(self)@.skip(n as int) { self.v.drain(0..n); }
    #[verifier::external_body]
    pub fn split(&mut self) -> (r: BytesMut) ensures r@ == old(self)@, final(self)@ == Seq::<u8>::empty() { BytesMut { v: std::mem::take(&mut self.v) } }
    #[verifier::external_body]
    pub fn split_to(&mut self, n: usize) -> (r: BytesMut) requires n <= old(self)@.len() ensures r@ == old(self)@.take(n as int), final(self)@ == old(self)@.skip(n as int) { let rest = self.v.split_off(n); BytesMut { v: std::mem::replace(&mut self.v, rest) } }
    #[verifier::external_body]
    pub fn freeze(self) -> (r: Bytes) ensures r@ == self@ { Bytes { v: self.v } }
    #[verifier::external_body]
    pub fn clear(&mut self) ensures final(self)@ == Seq::<u8>::empty() { self.v.clear() }
    #[verifier::external_body]
    pub fn truncate(&mut self, n: usize) ensures final(self)@ == (if n <= old(self)@.len() { old(self)@.take(n as int) } else { old(self)@ }) { self.v.truncate(n) }
    #[verifier::external_body]
    pub uninterp spec fn spec_capacity(&self) -> usize;
    #[verifier::external_body]
    pub fn capacity(&self) -> (r: usize) ensures r == self.spec_capacity(), r >= self@.len() { self.v.capacity() }
    #[verifier::external_body]
    pub fn reserve(&mut self, n: usize) ensures final(self)@ == old(self)@, final(self).spec_capacity() >= old(self)@.len() + n, final(self).spec_capacity() >= old(self).spec_capacity() { self.v.reserve(n) }
    #[verifier::external_body]
    pub fn extend_from_slice(&mut self, s: &[u8]) ensures final(self)@ == old(self)@ + s@ { self.v.extend_from_slice(s) }
    #[verifier::external_body]
    pub fn put_slice(&mut self, s: &[u8]) ensures final(self)@ == old(self)@ + s@ { self.v.extend_from_slice(s) }
    // Extend<u8> for BytesMut with a Bytes argument (IntoIterator<Item = u8>): appends its bytes
    #[verifier::external_body]
    pub fn extend(&mut self, b: Bytes) ensures final(self)@ == old(self)@ + b@ { unimplemented!() }
    #[verifier::external_body]
    pub fn put_u8(&mut self, b: u8) ensures final(self)@ == old(self)@.push(b) { self.v.push(b) }
}
impl Bytes {
    #[verifier::external_body]
    pub fn slice_bytes(&self, a: usize, b: usize) -> (r: Bytes) requires a <= b <= self@.len() ensures r@ == self@.subrange(a as int, b as int) { Bytes { v: self.v[a..b].to_vec() } }
    #[verifier::external_body]
    pub fn slice(&self, a: usize, b: usize) -> (r: &[u8]) requires a <= b <= self@.len() ensures r@ == self@.subrange(a as int, b as int) { &self.v[a..b] }
    #[verifier::external_body]
    pub fn as_ref(&self) -> (r: &[u8]) ensures r@ == self@ { &self.v[..] }
    #[verifier::external_body]
    pub fn new() -> (r: Bytes) ensures r@ == Seq::<u8>::empty() { Bytes { v: Vec::new() } }
    #[verifier::external_body]
    pub fn len(&self) -> (r: usize) ensures r == self@.len(), r <= 0x7fff_ffff_ffff_ffffusize /* Rust allocations never exceed isize::MAX bytes */ { self.v.len() }
    #[verifier::external_body]
    pub fn is_empty(&self) -> (r: bool) ensures r == (self@.len() == 0) { self.v.is_empty() }
    #[verifier::external_body]
    pub fn at(&self, i: usize) -> (r: u8) requires i < self@.len() ensures r == self@[i as int] { self.v[i] }
    #[verifier::external_body]
    pub fn split_to(&mut self, n: usize) -> (r: Bytes) requires n <= old(self)@.len() ensures r@ == old(self)@.take(n as int), final(self)@ == old(self)@.skip(n as int) { let rest = self.v.split_off(n); Bytes { v: std::mem::replace(&mut self.v, rest) } }
    #[verifier::external_body]
    pub fn split_off(&mut self, n: usize) -> (r: Bytes) requires n <= old(self)@.len() ensures r@ == old(self)@.skip(n as int), final(self)@ == old(self)@.take(n as int) { Bytes { v: self.v.split_off(n) } }
    #[verifier::external_body]
    pub fn truncate(&mut self, n: usize) ensures final(self)@ == (if n <= old(self)@.len() { old(self)@.take(n as int) } else { old(self)@ }) { self.v.truncate(n) }
    #[verifier::external_body]
    pub fn slice_all(&self) -> (r: &[u8]) ensures r@ == self@ { &self.v[..] }
    #[verifier::external_body]
    pub fn clone(&self) -> (r: Bytes) ensures r@ == self@ { Bytes { v: self.v.clone() } }
}

// R13o: a byte-string literal whose content no clause of the unit depends on: only its length is kept
#[verifier::external_body]
pub fn byte_str_opaque(n: usize) -> (r: &'static [u8]) ensures r@.len() == n { unimplemented!() }
