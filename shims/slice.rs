// native slices: range indexing is routed through these (R6); contracts are the std semantics (assumed)
pub trait SliceExt {
    spec fn sview(&self) -> Seq<u8>;
    fn slice_to(&self, b: usize) -> (r: &[u8]) requires b <= self.sview().len() ensures r@ == self.sview().take(b as int);
    fn slice_from(&self, a: usize) -> (r: &[u8]) requires a <= self.sview().len() ensures r@ == self.sview().skip(a as int);
    fn slice(&self, a: usize, b: usize) -> (r: &[u8]) requires a <= b <= self.sview().len() ensures r@ == self.sview().subrange(a as int, b as int);
    fn at(&self, i: usize) -> (r: u8) requires i < self.sview().len() ensures r == self.sview()[i as int];
    fn starts_with(&self, p: &[u8]) -> (r: bool) ensures r == (p@.len() <= self.sview().len() && self.sview().take(p@.len() as int) =~= p@);
}
impl SliceExt for [u8] {
    open spec fn sview(&self) -> Seq<u8> { self@ }
    #[verifier::external_body]
    fn slice_to(&self, b: usize) -> (r: &[u8]) { &self[..b] }
    #[verifier::external_body]
    fn slice_from(&self, a: usize) -> (r: &[u8]) { &self[a..] }
    #[verifier::external_body]
    fn slice(&self, a: usize, b: usize) -> (r: &[u8]) { &self[a..b] }
    #[verifier::external_body]
    fn at(&self, i: usize) -> (r: u8) { self[i] }
    #[verifier::external_body]
    fn starts_with(&self, p: &[u8]) -> (r: bool) { <[u8]>::starts_with(self, p) }
}
