#[derive(PartialEq, Eq, Structural, Clone, Copy)]
pub enum IoErrorKind { InvalidInput, UnexpectedEof, WriteZero, Other, InvalidData, WouldBlock, ConnectionReset }
pub mod io {
    use super::*;
    pub use super::IoErrorKind as ErrorKind;
    #[verifier::external_body]
    pub struct Error { k: ErrorKind }
    pub type Result<T> = core::result::Result<T, Error>;
    impl Error {
        pub uninterp spec fn spec_kind(&self) -> ErrorKind;
        #[verifier::external_body]
        pub fn new(kind: ErrorKind, msg: &'static str) -> (e: Error) ensures e.spec_kind() == kind { Error { k: kind } }
        #[verifier::external_body]
        pub fn kind(&self) -> (k: ErrorKind) ensures k == self.spec_kind() { self.k }
    }
}
pub type IoError = io::Error;
