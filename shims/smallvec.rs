macro_rules! smallvec { ($e:expr) => { SmallVec::from_one($e) } }
// @inside
// smallvec::SmallVec<[T; N]>: Vec-like (assumed).
pub trait SvArray { type Item; }
impl<T> SvArray for [T; 4] { type Item = T; }
#[verifier::external_body]
#[verifier::accept_recursive_types(A)]
pub struct SmallVec<A: SvArray> { v: Vec<A::Item> }
impl<A: SvArray> View for SmallVec<A> { type V = Seq<A::Item>; uninterp spec fn view(&self) -> Seq<A::Item>; }
impl<A: SvArray> SmallVec<A> {
    #[verifier::external_body]
    pub fn from_one(x: A::Item) -> (r: Self) ensures r@ == seq![x] { SmallVec { v: vec![x] } }
    #[verifier::external_body]
    pub fn new_empty() -> (r: Self) ensures r@ == Seq::<A::Item>::empty() { SmallVec { v: Vec::new() } }
    #[verifier::external_body]
    pub fn clear(&mut self) ensures final(self)@ == Seq::<A::Item>::empty() { self.v.clear() }
    #[verifier::external_body]
    pub fn truncate(&mut self, n: usize) ensures final(self)@ == (if n <= old(self)@.len() { old(self)@.take(n as int) } else { old(self)@ }) { self.v.truncate(n) }
    #[verifier::external_body]
    pub fn swap_remove(&mut self, i: usize) -> (r: A::Item) requires i < old(self)@.len() ensures r == old(self)@[i as int], final(self)@ == old(self)@.update(i as int, old(self)@.last()).drop_last() { self.v.swap_remove(i) }
    #[verifier::external_body]
    pub fn pop(&mut self) -> (r: Option<A::Item>) ensures match r { Some(x) => old(self)@.len() > 0 && x == old(self)@.last() && final(self)@ == old(self)@.drop_last(), None => old(self)@.len() == 0 && final(self)@ == old(self)@ } { self.v.pop() }
    #[verifier::external_body]
    pub fn len(&self) -> (r: usize) ensures r == self@.len() { self.v.len() }
    #[verifier::external_body]
    pub fn is_empty(&self) -> (r: bool) ensures r == (self@.len() == 0) { self.v.is_empty() }
    #[verifier::external_body]
    pub fn push(&mut self, x: A::Item) ensures final(self)@ == old(self)@.push(x) { self.v.push(x) }
    #[verifier::external_body]
    pub fn at(&self, i: usize) -> (r: &A::Item) requires i < self@.len() ensures *r == self@[i as int] { &self.v[i] }
    #[verifier::external_body]
    pub fn get(&self, i: usize) -> (r: Option<&A::Item>) ensures self@.len() <= usize::MAX, match r { Some(x) => i < self@.len() && *x == self@[i as int], None => i >= self@.len() } { self.v.get(i) }
    #[verifier::external_body]
    pub fn remove(&mut self, i: usize) -> (r: A::Item) requires i < old(self)@.len() ensures r == old(self)@[i as int], final(self)@ == old(self)@.remove(i as int) { self.v.remove(i) }
    #[verifier::external_body]
    pub fn into_iter(self) -> (r: SmallVecIntoIter<A>) ensures r@ == self@ { SmallVecIntoIter { v: self.v.into_iter().collect() } }
}
// smallvec::IntoIter: the not-yet-yielded suffix is its view
#[verifier::external_body]
#[verifier::accept_recursive_types(A)]
pub struct SmallVecIntoIter<A: SvArray> { v: std::collections::VecDeque<A::Item> }
impl<A: SvArray> View for SmallVecIntoIter<A> { type V = Seq<A::Item>; uninterp spec fn view(&self) -> Seq<A::Item>; }
impl<A: SvArray> SmallVecIntoIter<A> {
    #[verifier::external_body]
    pub fn next(&mut self) -> (r: Option<A::Item>)
        ensures match r { Some(x) => old(self)@.len() > 0 && x == old(self)@[0] && final(self)@ == old(self)@.skip(1), None => old(self)@.len() == 0 && final(self)@ == old(self)@ }
    { self.v.pop_front() }
    #[verifier::external_body]
    pub fn size_hint(&self) -> (r: (usize, Option<usize>)) ensures r.0 == self@.len() && r.1 == Some(self@.len() as usize) { (self.v.len(), Some(self.v.len())) }
}
pub mod smallvec { pub use super::SmallVecIntoIter as IntoIter; }
