// tokio::io::{AsyncRead, AsyncWrite} on the connection socket, with ghost logs (assumed contracts):
//   accepted()  = every byte the socket has accepted for writing so far, in order
//   poll_write: Ready(Ok(n)) accepts exactly the first n bytes offered (n <= len); Pending accepts nothing and
//               registers the task's waker; poll_flush/poll_read likewise register on Pending.
pub uninterp spec fn io_registered(wid: int) -> bool;
// `b` is `a` with bytes appended (kept opaque in the big functions: the sequence axioms behind `take`/`=~=` are what made
// read_available cost 95 M rlimit units; with the predicate and its three lemmas it is a fraction of that)
#[verifier::opaque]
pub open spec fn buf_extends(a: Seq<u8>, b: Seq<u8>) -> bool { a.len() <= b.len() && b.take(a.len() as int) =~= a }
pub proof fn lemma_buf_extends_refl(a: Seq<u8>) ensures buf_extends(a, a) { reveal(buf_extends); assert(a.take(a.len() as int) =~= a); }
pub proof fn lemma_buf_extends_trans(a: Seq<u8>, b: Seq<u8>, c: Seq<u8>) requires buf_extends(a, b), buf_extends(b, c) ensures buf_extends(a, c)
{ reveal(buf_extends); assert(c.take(a.len() as int) =~= c.take(b.len() as int).take(a.len() as int)); }
pub proof fn lemma_buf_extends_same_len(a: Seq<u8>, b: Seq<u8>) requires buf_extends(a, b), a.len() == b.len() ensures a == b
{ reveal(buf_extends); assert(b.take(b.len() as int) =~= b); }
pub trait SocketIo {
    spec fn accepted(&self) -> Seq<u8>;
    // the peer has closed its sending side (a read returned 0 bytes) or the connection was reset
    spec fn peer_gone(&self) -> bool;
    fn poll_write(&mut self, cx: &mut Context<'_>, buf: &[u8]) -> (r: Poll<io::Result<usize>>)
        ensures
            final(cx).spec_waker() == old(cx).spec_waker(),
            match r {
                Poll::Ready(Ok(n)) => n <= buf@.len() && final(self).accepted() == old(self).accepted() + buf@.take(n as int),
                Poll::Ready(Err(_)) => final(self).accepted() == old(self).accepted(),
                Poll::Pending => final(self).accepted() == old(self).accepted() && io_registered(old(cx).spec_waker().wid()),
            };
    fn poll_flush(&mut self, cx: &mut Context<'_>) -> (r: Poll<io::Result<()>>)
        ensures
            final(cx).spec_waker() == old(cx).spec_waker(),
            final(self).accepted() == old(self).accepted(),
            r is Pending ==> io_registered(old(cx).spec_waker().wid());
    // tokio_util::io::poll_read_buf(io, cx, buf): appends what was read to buf, at most its spare capacity
    fn poll_read_buf(&mut self, cx: &mut Context<'_>, buf: &mut BytesMut) -> (r: Poll<io::Result<usize>>)
        ensures
            final(cx).spec_waker() == old(cx).spec_waker(),
            final(self).accepted() == old(self).accepted(),
            match r {
                Poll::Ready(Ok(n)) => final(buf)@.len() == old(buf)@.len() + n && buf_extends(old(buf)@, final(buf)@) && (n == 0 && old(buf)@.len() < old(buf).spec_capacity() ==> final(self).peer_gone()) /* with no spare capacity tokio_util returns Ok(0) without reading: that is NOT end of stream */ && (n > 0 ==> final(self).peer_gone() == old(self).peer_gone())
                    && old(buf)@.len() + n <= old(buf).spec_capacity() && final(buf).spec_capacity() == old(buf).spec_capacity(),
                Poll::Ready(Err(e)) => final(buf)@ == old(buf)@ && e.spec_kind() != io::ErrorKind::WouldBlock /* AsyncRead contract: not-ready is Pending, never a WouldBlock error */
                    && (e.spec_kind() == io::ErrorKind::ConnectionReset ==> final(self).peer_gone()) && (e.spec_kind() != io::ErrorKind::ConnectionReset ==> final(self).peer_gone() == old(self).peer_gone()),
                Poll::Pending => final(buf)@ == old(buf)@ && io_registered(old(cx).spec_waker().wid()) && final(self).peer_gone() == old(self).peer_gone(),
            };
}
