use std::collections::{HashMap, hash_map};
use std::borrow::Borrow;
// @inside
