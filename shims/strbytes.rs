// R17: a `&str` / `String` parameter that is only used through len()/as_bytes() is typed `&StrBytes`:
// an opaque byte string (Verus has no byte-level reasoning on str).
#[verifier::external_body]
pub struct StrBytes { s: String }
impl View for StrBytes { type V = Seq<u8>; uninterp spec fn view(&self) -> Seq<u8>; }
impl StrBytes {
    #[verifier::external_body]
    pub fn len(&self) -> (r: usize) ensures r == self@.len() { self.s.len() }
    #[verifier::external_body]
    pub fn is_empty(&self) -> (r: bool) ensures r == (self@.len() == 0) { self.s.is_empty() }
    #[verifier::external_body]
    pub fn as_bytes(&self) -> (r: &[u8]) ensures r@ == self@ { self.s.as_bytes() }
}
