// A finite body stream with a prophesied remainder: `remaining()` are the items it will still yield.
// Assumed Stream contract: Ready(Some(x)) yields the next item, Ready(None) only at the end, Pending
// registers the polling task's waker and changes nothing.
pub uninterp spec fn stream_registered(wid: int) -> bool;
pub trait ItemStream {
    type Item;
    spec fn remaining(&self) -> Seq<Self::Item>;
    fn poll_next(&mut self, cx: &mut Context<'_>) -> (r: Poll<Option<Self::Item>>)
        ensures
            final(cx).spec_waker() == old(cx).spec_waker(),
            match r {
                Poll::Ready(Some(x)) => old(self).remaining().len() > 0 && x == old(self).remaining()[0] && final(self).remaining() == old(self).remaining().skip(1),
                Poll::Ready(None) => old(self).remaining().len() == 0 && final(self).remaining() == old(self).remaining(),
                Poll::Pending => final(self).remaining() == old(self).remaining() && stream_registered(old(cx).spec_waker().wid()),
            };
}
