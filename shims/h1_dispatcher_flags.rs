// bitflags!-generated h1::dispatcher::Flags: set semantics over the eight named flags (assumed)
#[derive(Clone, Copy)]
pub struct Flags { pub started: bool, pub finished: bool, pub keep_alive: bool, pub shutdown: bool, pub read_disconnect: bool, pub write_disconnect: bool, pub linger: bool, pub draining: bool }
impl Flags {
    pub const STARTED: Flags = Flags { started: true, finished: false, keep_alive: false, shutdown: false, read_disconnect: false, write_disconnect: false, linger: false, draining: false };
    pub const FINISHED: Flags = Flags { started: false, finished: true, keep_alive: false, shutdown: false, read_disconnect: false, write_disconnect: false, linger: false, draining: false };
    pub const KEEP_ALIVE: Flags = Flags { started: false, finished: false, keep_alive: true, shutdown: false, read_disconnect: false, write_disconnect: false, linger: false, draining: false };
    pub const SHUTDOWN: Flags = Flags { started: false, finished: false, keep_alive: false, shutdown: true, read_disconnect: false, write_disconnect: false, linger: false, draining: false };
    pub const READ_DISCONNECT: Flags = Flags { started: false, finished: false, keep_alive: false, shutdown: false, read_disconnect: true, write_disconnect: false, linger: false, draining: false };
    pub const WRITE_DISCONNECT: Flags = Flags { started: false, finished: false, keep_alive: false, shutdown: false, read_disconnect: false, write_disconnect: true, linger: false, draining: false };
    pub const LINGER: Flags = Flags { started: false, finished: false, keep_alive: false, shutdown: false, read_disconnect: false, write_disconnect: false, linger: true, draining: false };
    pub const DRAINING: Flags = Flags { started: false, finished: false, keep_alive: false, shutdown: false, read_disconnect: false, write_disconnect: false, linger: false, draining: true };
    pub fn contains(&self, o: Flags) -> (r: bool)
        ensures r == ((o.started ==> self.started) && (o.finished ==> self.finished) && (o.keep_alive ==> self.keep_alive) && (o.shutdown ==> self.shutdown) && (o.read_disconnect ==> self.read_disconnect) && (o.write_disconnect ==> self.write_disconnect) && (o.linger ==> self.linger) && (o.draining ==> self.draining))
    { (!o.started || self.started) && (!o.finished || self.finished) && (!o.keep_alive || self.keep_alive) && (!o.shutdown || self.shutdown) && (!o.read_disconnect || self.read_disconnect) && (!o.write_disconnect || self.write_disconnect) && (!o.linger || self.linger) && (!o.draining || self.draining) }
    pub fn insert(&mut self, o: Flags)
        ensures final(self).started == (old(self).started || o.started), final(self).finished == (old(self).finished || o.finished), final(self).keep_alive == (old(self).keep_alive || o.keep_alive), final(self).shutdown == (old(self).shutdown || o.shutdown), final(self).read_disconnect == (old(self).read_disconnect || o.read_disconnect), final(self).write_disconnect == (old(self).write_disconnect || o.write_disconnect), final(self).linger == (old(self).linger || o.linger), final(self).draining == (old(self).draining || o.draining)
    { self.started = self.started || o.started; self.finished = self.finished || o.finished; self.keep_alive = self.keep_alive || o.keep_alive; self.shutdown = self.shutdown || o.shutdown; self.read_disconnect = self.read_disconnect || o.read_disconnect; self.write_disconnect = self.write_disconnect || o.write_disconnect; self.linger = self.linger || o.linger; self.draining = self.draining || o.draining; }
    pub fn remove(&mut self, o: Flags)
        ensures final(self).started == (old(self).started && !o.started), final(self).finished == (old(self).finished && !o.finished), final(self).keep_alive == (old(self).keep_alive && !o.keep_alive), final(self).shutdown == (old(self).shutdown && !o.shutdown), final(self).read_disconnect == (old(self).read_disconnect && !o.read_disconnect), final(self).write_disconnect == (old(self).write_disconnect && !o.write_disconnect), final(self).linger == (old(self).linger && !o.linger), final(self).draining == (old(self).draining && !o.draining)
    { self.started = self.started && !o.started; self.finished = self.finished && !o.finished; self.keep_alive = self.keep_alive && !o.keep_alive; self.shutdown = self.shutdown && !o.shutdown; self.read_disconnect = self.read_disconnect && !o.read_disconnect; self.write_disconnect = self.write_disconnect && !o.write_disconnect; self.linger = self.linger && !o.linger; self.draining = self.draining && !o.draining; }
    pub fn set(&mut self, o: Flags, v: bool)
        ensures *final(self) == (if v { Flags { started: old(self).started || o.started, finished: old(self).finished || o.finished, keep_alive: old(self).keep_alive || o.keep_alive, shutdown: old(self).shutdown || o.shutdown, read_disconnect: old(self).read_disconnect || o.read_disconnect, write_disconnect: old(self).write_disconnect || o.write_disconnect, linger: old(self).linger || o.linger, draining: old(self).draining || o.draining } } else { Flags { started: old(self).started && !o.started, finished: old(self).finished && !o.finished, keep_alive: old(self).keep_alive && !o.keep_alive, shutdown: old(self).shutdown && !o.shutdown, read_disconnect: old(self).read_disconnect && !o.read_disconnect, write_disconnect: old(self).write_disconnect && !o.write_disconnect, linger: old(self).linger && !o.linger, draining: old(self).draining && !o.draining } })
    { if v { self.insert(o); } else { self.remove(o); } }
    pub fn intersects(&self, o: Flags) -> (r: bool)
        ensures r == ((o.started && self.started) || (o.finished && self.finished) || (o.keep_alive && self.keep_alive) || (o.shutdown && self.shutdown) || (o.read_disconnect && self.read_disconnect) || (o.write_disconnect && self.write_disconnect) || (o.linger && self.linger) || (o.draining && self.draining))
    { (o.started && self.started) || (o.finished && self.finished) || (o.keep_alive && self.keep_alive) || (o.shutdown && self.shutdown) || (o.read_disconnect && self.read_disconnect) || (o.write_disconnect && self.write_disconnect) || (o.linger && self.linger) || (o.draining && self.draining) }
    pub fn union(self, o: Flags) -> (r: Flags)
        ensures r.started == (self.started || o.started), r.finished == (self.finished || o.finished), r.keep_alive == (self.keep_alive || o.keep_alive), r.shutdown == (self.shutdown || o.shutdown), r.read_disconnect == (self.read_disconnect || o.read_disconnect), r.write_disconnect == (self.write_disconnect || o.write_disconnect), r.linger == (self.linger || o.linger), r.draining == (self.draining || o.draining)
    { Flags { started: self.started || o.started, finished: self.finished || o.finished, keep_alive: self.keep_alive || o.keep_alive, shutdown: self.shutdown || o.shutdown, read_disconnect: self.read_disconnect || o.read_disconnect, write_disconnect: self.write_disconnect || o.write_disconnect, linger: self.linger || o.linger, draining: self.draining || o.draining } }
}
impl vstd::std_specs::ops::BitOrSpecImpl for Flags {
    open spec fn obeys_bitor_spec() -> bool { true }
    open spec fn bitor_req(self, o: Flags) -> bool { true }
    open spec fn bitor_spec(self, o: Flags) -> Flags { Flags { started: self.started || o.started, finished: self.finished || o.finished, keep_alive: self.keep_alive || o.keep_alive, shutdown: self.shutdown || o.shutdown, read_disconnect: self.read_disconnect || o.read_disconnect, write_disconnect: self.write_disconnect || o.write_disconnect, linger: self.linger || o.linger, draining: self.draining || o.draining } }
}
impl core::ops::BitOr for Flags {
    type Output = Flags;
    fn bitor(self, o: Flags) -> (r: Flags) { self.union(o) }
}
