//! BOUNDED stand-ins on the REAL actix-web / actix-files crates from the working tree (thorough tier):
//!  * AcceptEncoding::negotiate on every entry list of length <= 3 over {identity, gzip, br, *} x {q=0, 0.5, 1} and four
//!    supported sets, against the RFC 9110 12.5.3 `permits` predicate (the one unit web_accept_encoding proves against);
//!  * NamedFile::into_response for files of length 0, 1, 2, 5 and every Range header made of one or two syntactically valid
//!    range-specs with numbers up to length + 1, and the If-Match / If-None-Match forms of the file's own entity tag,
//!    against RFC 9110 13.1 / 14.
//! Labelled bounded, never counted as proved.  Output: `BOUNDED-OK <family> cases=<n>` / `BOUNDED-FAIL <family> input=.. expected=.. got=..`.
use std::panic::{catch_unwind, AssertUnwindSafe};

use actix_files::NamedFile;
use actix_web::{
    body::{BodySize, MessageBody},
    http::header::{AcceptEncoding, Encoding, Preference, Quality, QualityItem},
    test::TestRequest,
};

// ---------------------------------------------------------------- negotiate
type Item = QualityItem<Preference<Encoding>>;

fn q_of(x: &Item) -> Quality { x.quality }
fn pos(x: &Item) -> bool { x.quality > Quality::ZERO }
fn names(list: &[Item], p: &Preference<Encoding>) -> bool { list.iter().any(|x| &x.item == p) }
fn names_pos(list: &[Item], p: &Preference<Encoding>) -> bool { list.iter().any(|x| &x.item == p && pos(x)) }
fn permits(list: &[Item], e: &Encoding) -> bool {
    if list.is_empty() { return true; }
    let sp = Preference::Specific(e.clone());
    if names(list, &sp) { names_pos(list, &sp) }
    else if names(list, &Preference::Any) { names_pos(list, &Preference::Any) }
    else { *e == Encoding::identity() }
}
fn ident_ok(list: &[Item]) -> bool {
    let sp = Preference::Specific(Encoding::identity());
    if names(list, &sp) { names_pos(list, &sp) } else if names(list, &Preference::Any) { names_pos(list, &Preference::Any) } else { true }
}

fn check_negotiate() -> bool {
    let atoms = ["identity", "gzip", "br", "*"];
    let qs = ["", ";q=0.5", ";q=0"];
    let mut entries: Vec<String> = Vec::new();
    for a in atoms { for q in qs { entries.push(format!("{}{}", a, q)); } }
    let mut lists: Vec<Vec<String>> = vec![vec![]];
    for a in &entries { lists.push(vec![a.clone()]); }
    for a in &entries { for b in &entries { lists.push(vec![a.clone(), b.clone()]); } }
    for a in &entries { for b in &entries { for c in &entries { lists.push(vec![a.clone(), b.clone(), c.clone()]); } } }
    let supported_sets: Vec<Vec<Encoding>> = vec![
        vec![Encoding::identity(), Encoding::gzip(), Encoding::brotli()],
        vec![Encoding::identity()],
        vec![Encoding::gzip()],
        vec![Encoding::identity(), Encoding::brotli()],
    ];
    let mut n = 0usize;
    for l in &lists {
        let items: Vec<Item> = l.iter().map(|s| s.parse::<Item>().unwrap()).collect();
        let ae = AcceptEncoding(items.clone());
        for sup in &supported_sets {
            n += 1;
            let got = match catch_unwind(AssertUnwindSafe(|| ae.negotiate(sup.iter()))) {
                Ok(g) => g,
                Err(_) => { println!("BOUNDED-FAIL negotiate input={:?} supported={:?} expected=no panic got=panic", l, sup); return false; }
            };
            let sat: Vec<&Item> = items.iter().filter(|x| pos(x) && matches!(&x.item, Preference::Specific(e) if sup.contains(e))).collect();
            let fail = |why: &str| { println!("BOUNDED-FAIL negotiate input={:?} supported={:?} expected={} got={:?}", l, sup, why, got); };
            match &got {
                Some(e) => {
                    if !permits(&items, e) { fail("a coding the field permits"); return false; }
                    if !(sup.contains(e) || *e == Encoding::identity()) { fail("a supported coding or identity"); return false; }
                    if !sat.is_empty() {
                        if !sup.contains(e) { fail("a supported coding"); return false; }
                        // effective quality of the chosen coding: its own entries, else the wildcard's
                        let own: Vec<Quality> = items.iter().filter(|x| x.item == Preference::Specific(e.clone())).map(q_of).collect();
                        let eff = if !own.is_empty() { own.into_iter().max().unwrap() } else { items.iter().filter(|x| x.item == Preference::Any).map(q_of).max().unwrap_or(Quality::ZERO) };
                        if sat.iter().any(|x| q_of(x) > eff) { fail("no listed supported coding with a higher quality passed over"); return false; }
                    }
                }
                None => {
                    if !(sup.is_empty() || (!ident_ok(&items) && sat.is_empty())) { fail("some acceptable coding"); return false; }
                }
            }
        }
    }
    println!("BOUNDED-OK negotiate cases={}", n);
    true
}

// ---------------------------------------------------------------- NamedFile::into_response
#[derive(Clone, Copy, Debug)]
enum Spec { FromTo(u64, u64), From(u64), Last(u64) }
impl Spec {
    fn text(&self) -> String { match self { Spec::FromTo(a, b) => format!("{}-{}", a, b), Spec::From(a) => format!("{}-", a), Spec::Last(n) => format!("-{}", n) } }
    // RFC 9110 14.1.2
    fn satisfiable(&self, len: u64) -> Option<(u64, u64)> {
        if len == 0 { return None; }
        match *self {
            Spec::FromTo(a, b) => if a < len && a <= b { Some((a, b.min(len - 1))) } else { None },
            Spec::From(a) => if a < len { Some((a, len - 1)) } else { None },
            Spec::Last(n) => if n == 0 { None } else if n > len { Some((0, len - 1)) } else { Some((len - n, len - 1)) },
        }
    }
}

struct Got { status: u16, content_range: Option<String>, size: Option<u64> }
fn respond(path: &std::path::Path, headers: &[(&str, String)]) -> Result<Got, String> {
    let mut rq = TestRequest::default();
    for (k, v) in headers { rq = rq.insert_header((*k, v.clone())); }
    let req = rq.to_http_request();
    let file = NamedFile::open(path).map_err(|e| e.to_string())?;
    let r = catch_unwind(AssertUnwindSafe(|| file.into_response(&req))).map_err(|_| "panic".to_owned())?;
    let status = r.status().as_u16();
    let content_range = r.headers().get("content-range").map(|v| v.to_str().unwrap_or("?").to_owned());
    let size = match r.into_body().size() { BodySize::Sized(n) => Some(n), BodySize::None => Some(0), BodySize::Stream => None };
    Ok(Got { status, content_range, size })
}

fn check_ranges(dir: &std::path::Path) -> bool {
    let mut n = 0usize;
    for len in [0u64, 1, 2, 5] {
        let path = dir.join(format!("f{}.bin", len));
        std::fs::write(&path, vec![b'x'; len as usize]).unwrap();
        let mut specs = Vec::new();
        for a in 0..=len + 1 { for b in a..=len + 1 { specs.push(Spec::FromTo(a, b)); } specs.push(Spec::From(a)); specs.push(Spec::Last(a)); }
        let mut headers: Vec<Vec<Spec>> = specs.iter().map(|s| vec![*s]).collect();
        for a in &specs { for b in &specs { headers.push(vec![*a, *b]); } }
        for h in &headers {
            n += 1;
            let text = format!("bytes={}", h.iter().map(|s| s.text()).collect::<Vec<_>>().join(","));
            let first = h.iter().filter_map(|s| s.satisfiable(len)).next();
            let (exp_status, exp_cr, exp_size) = match first {
                Some((f, l)) => (206u16, format!("bytes {}-{}/{}", f, l, len), l - f + 1),
                None => (416u16, format!("bytes */{}", len), 0),
            };
            let got = respond(&path, &[("range", text.clone())]);
            let ok = match &got { Ok(g) => g.status == exp_status && g.content_range.as_deref() == Some(exp_cr.as_str()) && g.size == Some(exp_size), Err(_) => false };
            if !ok {
                let g = match got { Ok(g) => format!("status {} content-range {:?} body {:?}", g.status, g.content_range, g.size), Err(e) => e };
                println!("BOUNDED-FAIL file_ranges input=(file of {} bytes, Range: {}) expected=(status {} content-range {:?} body {}) got=({})", len, text, exp_status, exp_cr, exp_size, g);
                return false;
            }
        }
        // no Range header: the whole file
        n += 1;
        match respond(&path, &[]) {
            Ok(g) if g.status == 200 && g.content_range.is_none() && g.size == Some(len) => {}
            Ok(g) => { println!("BOUNDED-FAIL file_ranges input=(file of {} bytes, no Range) expected=(200, whole file) got=(status {} content-range {:?} body {:?})", len, g.status, g.content_range, g.size); return false; }
            Err(e) => { println!("BOUNDED-FAIL file_ranges input=(file of {} bytes, no Range) expected=(200) got=({})", len, e); return false; }
        }
    }
    println!("BOUNDED-OK file_ranges cases={}", n);
    true
}

fn check_conditionals(dir: &std::path::Path) -> bool {
    let path = dir.join("cond.bin");
    std::fs::write(&path, b"hello").unwrap();
    let req = TestRequest::default().to_http_request();
    let etag = NamedFile::open(&path).unwrap().into_response(&req).headers().get("etag").map(|v| v.to_str().unwrap().to_owned());
    let Some(etag) = etag else { println!("BOUNDED-FAIL file_conditionals input=plain GET expected=an ETag header got=none"); return false; };
    let weak = format!("W/{}", etag);
    let other = "\"not-the-tag\"".to_owned();
    // RFC 9110 13.1.1: If-Match uses the strong comparison; 13.1.2: If-None-Match uses the weak comparison
    let cases: Vec<(&str, String, u16)> = vec![
        ("if-none-match", etag.clone(), 304), ("if-none-match", weak.clone(), 304), ("if-none-match", other.clone(), 200),
        ("if-none-match", format!("{}, {}", other, weak), 304), ("if-none-match", "*".to_owned(), 304),
        ("if-match", etag.clone(), 200), ("if-match", weak.clone(), 412), ("if-match", other.clone(), 412),
        ("if-match", format!("{}, {}", other, etag), 200), ("if-match", "*".to_owned(), 200),
    ];
    let mut n = 0;
    for (h, v, exp) in &cases {
        n += 1;
        match respond(&path, &[(h, v.clone())]) {
            Ok(g) if g.status == *exp => {}
            Ok(g) => { println!("BOUNDED-FAIL file_conditionals input=({}: {}) expected=status {} got=status {}", h, v, exp, g.status); return false; }
            Err(e) => { println!("BOUNDED-FAIL file_conditionals input=({}: {}) expected=status {} got={}", h, v, exp, e); return false; }
        }
    }
    println!("BOUNDED-OK file_conditionals cases={}", n);
    true
}

fn main() {
    std::panic::set_hook(Box::new(|_| {}));
    let dir = std::env::current_dir().unwrap().join("files");
    let _ = std::fs::create_dir_all(&dir);
    let mut ok = true;
    ok &= check_negotiate();
    ok &= check_ranges(&dir);
    ok &= check_conditionals(&dir);
    std::process::exit(if ok { 0 } else { 1 });
}
