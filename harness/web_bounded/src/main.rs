//! BOUNDED stand-ins on the REAL actix-web / actix-files crates from the working tree (thorough tier):
//!  * AcceptEncoding::negotiate on every entry list of length <= 3 over {identity, gzip, br, *} x {q=0, 0.5, 1} and four
//!    supported sets, against the RFC 9110 12.5.3 `permits` predicate (the one unit web_accept_encoding proves against);
//!  * NamedFile::into_response for files of length 0, 1, 2, 5 and every Range header made of one or two syntactically valid
//!    range-specs with numbers up to length + 1, and the If-Match / If-None-Match forms of the file's own entity tag,
//!    against RFC 9110 13.1 / 14.
//! Labelled bounded, never counted as proved.  Output: `BOUNDED-OK <family> cases=<n>` / `BOUNDED-FAIL <family> input=.. expected=.. got=..`.
use std::panic::{catch_unwind, AssertUnwindSafe};

use actix_files::NamedFile;
use actix_web::{
    body::{BodySize, MessageBody},
    http::header::{AcceptEncoding, Encoding, Preference, Quality, QualityItem},
    test::TestRequest,
};

// ---------------------------------------------------------------- negotiate
type Item = QualityItem<Preference<Encoding>>;

fn q_of(x: &Item) -> Quality { x.quality }
fn pos(x: &Item) -> bool { x.quality > Quality::ZERO }
fn names(list: &[Item], p: &Preference<Encoding>) -> bool { list.iter().any(|x| &x.item == p) }
fn names_pos(list: &[Item], p: &Preference<Encoding>) -> bool { list.iter().any(|x| &x.item == p && pos(x)) }
fn permits(list: &[Item], e: &Encoding) -> bool {
    if list.is_empty() { return true; }
    let sp = Preference::Specific(e.clone());
    if names(list, &sp) { names_pos(list, &sp) }
    else if names(list, &Preference::Any) { names_pos(list, &Preference::Any) }
    else { *e == Encoding::identity() }
}
fn ident_ok(list: &[Item]) -> bool {
    let sp = Preference::Specific(Encoding::identity());
    if names(list, &sp) { names_pos(list, &sp) } else if names(list, &Preference::Any) { names_pos(list, &Preference::Any) } else { true }
}

fn check_negotiate() -> bool {
    let atoms = ["identity", "gzip", "br", "*"];
    let qs = ["", ";q=0.5", ";q=0"];
    let mut entries: Vec<String> = Vec::new();
    for a in atoms { for q in qs { entries.push(format!("{}{}", a, q)); } }
    let mut lists: Vec<Vec<String>> = vec![vec![]];
    for a in &entries { lists.push(vec![a.clone()]); }
    for a in &entries { for b in &entries { lists.push(vec![a.clone(), b.clone()]); } }
    for a in &entries { for b in &entries { for c in &entries { lists.push(vec![a.clone(), b.clone(), c.clone()]); } } }
    let supported_sets: Vec<Vec<Encoding>> = vec![
        vec![Encoding::identity(), Encoding::gzip(), Encoding::brotli()],
        vec![Encoding::identity()],
        vec![Encoding::gzip()],
        vec![Encoding::identity(), Encoding::brotli()],
    ];
    let mut n = 0usize;
    for l in &lists {
        let items: Vec<Item> = l.iter().map(|s| s.parse::<Item>().unwrap()).collect();
        let ae = AcceptEncoding(items.clone());
        for sup in &supported_sets {
            n += 1;
            let got = match catch_unwind(AssertUnwindSafe(|| ae.negotiate(sup.iter()))) {
                Ok(g) => g,
                Err(_) => { println!("BOUNDED-FAIL negotiate input={:?} supported={:?} expected=no panic got=panic", l, sup); return false; }
            };
            let sat: Vec<&Item> = items.iter().filter(|x| pos(x) && matches!(&x.item, Preference::Specific(e) if sup.contains(e))).collect();
            let fail = |why: &str| { println!("BOUNDED-FAIL negotiate input={:?} supported={:?} expected={} got={:?}", l, sup, why, got); };
            match &got {
                Some(e) => {
                    if !permits(&items, e) { fail("a coding the field permits"); return false; }
                    if !(sup.contains(e) || *e == Encoding::identity()) { fail("a supported coding or identity"); return false; }
                    if !sat.is_empty() {
                        if !sup.contains(e) { fail("a supported coding"); return false; }
                        // effective quality of the chosen coding: its own entries, else the wildcard's
                        let own: Vec<Quality> = items.iter().filter(|x| x.item == Preference::Specific(e.clone())).map(q_of).collect();
                        let eff = if !own.is_empty() { own.into_iter().max().unwrap() } else { items.iter().filter(|x| x.item == Preference::Any).map(q_of).max().unwrap_or(Quality::ZERO) };
                        if sat.iter().any(|x| q_of(x) > eff) { fail("no listed supported coding with a higher quality passed over"); return false; }
                    }
                }
                None => {
                    if !(sup.is_empty() || (!ident_ok(&items) && sat.is_empty())) { fail("some acceptable coding"); return false; }
                }
            }
        }
    }
    println!("BOUNDED-OK negotiate cases={}", n);
    true
}

// ---------------------------------------------------------------- NamedFile::into_response
#[derive(Clone, Copy, Debug)]
enum Spec { FromTo(u64, u64), From(u64), Last(u64) }
impl Spec {
    fn text(&self) -> String { match self { Spec::FromTo(a, b) => format!("{}-{}", a, b), Spec::From(a) => format!("{}-", a), Spec::Last(n) => format!("-{}", n) } }
    // RFC 9110 14.1.2
    fn satisfiable(&self, len: u64) -> Option<(u64, u64)> {
        if len == 0 { return None; }
        match *self {
            Spec::FromTo(a, b) => if a < len && a <= b { Some((a, b.min(len - 1))) } else { None },
            Spec::From(a) => if a < len { Some((a, len - 1)) } else { None },
            Spec::Last(n) => if n == 0 { None } else if n > len { Some((0, len - 1)) } else { Some((len - n, len - 1)) },
        }
    }
}

struct Got { status: u16, content_range: Option<String>, size: Option<u64> }
fn respond(path: &std::path::Path, headers: &[(&str, String)]) -> Result<Got, String> {
    let mut rq = TestRequest::default();
    for (k, v) in headers { rq = rq.insert_header((*k, v.clone())); }
    let req = rq.to_http_request();
    let file = NamedFile::open(path).map_err(|e| e.to_string())?;
    let r = catch_unwind(AssertUnwindSafe(|| file.into_response(&req))).map_err(|_| "panic".to_owned())?;
    let status = r.status().as_u16();
    let content_range = r.headers().get("content-range").map(|v| v.to_str().unwrap_or("?").to_owned());
    let size = match r.into_body().size() { BodySize::Sized(n) => Some(n), BodySize::None => Some(0), BodySize::Stream => None };
    Ok(Got { status, content_range, size })
}

fn check_ranges(dir: &std::path::Path) -> bool {
    let mut n = 0usize;
    for len in [0u64, 1, 2, 5] {
        let path = dir.join(format!("f{}.bin", len));
        std::fs::write(&path, vec![b'x'; len as usize]).unwrap();
        let mut specs = Vec::new();
        for a in 0..=len + 1 { for b in a..=len + 1 { specs.push(Spec::FromTo(a, b)); } specs.push(Spec::From(a)); specs.push(Spec::Last(a)); }
        let mut headers: Vec<Vec<Spec>> = specs.iter().map(|s| vec![*s]).collect();
        for a in &specs { for b in &specs { headers.push(vec![*a, *b]); } }
        for h in &headers {
            n += 1;
            let text = format!("bytes={}", h.iter().map(|s| s.text()).collect::<Vec<_>>().join(","));
            let first = h.iter().filter_map(|s| s.satisfiable(len)).next();
            let (exp_status, exp_cr, exp_size) = match first {
                Some((f, l)) => (206u16, format!("bytes {}-{}/{}", f, l, len), l - f + 1),
                None => (416u16, format!("bytes */{}", len), 0),
            };
            let got = respond(&path, &[("range", text.clone())]);
            let ok = match &got { Ok(g) => g.status == exp_status && g.content_range.as_deref() == Some(exp_cr.as_str()) && g.size == Some(exp_size), Err(_) => false };
            if !ok {
                let g = match got { Ok(g) => format!("status {} content-range {:?} body {:?}", g.status, g.content_range, g.size), Err(e) => e };
                println!("BOUNDED-FAIL file_ranges input=(file of {} bytes, Range: {}) expected=(status {} content-range {:?} body {}) got=({})", len, text, exp_status, exp_cr, exp_size, g);
                return false;
            }
        }
        // no Range header: the whole file
        n += 1;
        match respond(&path, &[]) {
            Ok(g) if g.status == 200 && g.content_range.is_none() && g.size == Some(len) => {}
            Ok(g) => { println!("BOUNDED-FAIL file_ranges input=(file of {} bytes, no Range) expected=(200, whole file) got=(status {} content-range {:?} body {:?})", len, g.status, g.content_range, g.size); return false; }
            Err(e) => { println!("BOUNDED-FAIL file_ranges input=(file of {} bytes, no Range) expected=(200) got=({})", len, e); return false; }
        }
    }
    println!("BOUNDED-OK file_ranges cases={}", n);
    true
}

fn check_conditionals(dir: &std::path::Path) -> bool {
    let path = dir.join("cond.bin");
    std::fs::write(&path, b"hello").unwrap();
    let req = TestRequest::default().to_http_request();
    let etag = NamedFile::open(&path).unwrap().into_response(&req).headers().get("etag").map(|v| v.to_str().unwrap().to_owned());
    let Some(etag) = etag else { println!("BOUNDED-FAIL file_conditionals input=plain GET expected=an ETag header got=none"); return false; };
    let weak = format!("W/{}", etag);
    let other = "\"not-the-tag\"".to_owned();
    // RFC 9110 13.1.1: If-Match uses the strong comparison; 13.1.2: If-None-Match uses the weak comparison
    let cases: Vec<(&str, String, u16)> = vec![
        ("if-none-match", etag.clone(), 304), ("if-none-match", weak.clone(), 304), ("if-none-match", other.clone(), 200),
        ("if-none-match", format!("{}, {}", other, weak), 304), ("if-none-match", "*".to_owned(), 304),
        ("if-match", etag.clone(), 200), ("if-match", weak.clone(), 412), ("if-match", other.clone(), 412),
        ("if-match", format!("{}, {}", other, etag), 200), ("if-match", "*".to_owned(), 200),
    ];
    let mut n = 0;
    for (h, v, exp) in &cases {
        n += 1;
        match respond(&path, &[(h, v.clone())]) {
            Ok(g) if g.status == *exp => {}
            Ok(g) => { println!("BOUNDED-FAIL file_conditionals input=({}: {}) expected=status {} got=status {}", h, v, exp, g.status); return false; }
            Err(e) => { println!("BOUNDED-FAIL file_conditionals input=({}: {}) expected=status {} got={}", h, v, exp, e); return false; }
        }
    }
    println!("BOUNDED-OK file_conditionals cases={}", n);
    true
}


// ---------------------------------------------------------------- HeaderMap against a reference multimap (C18)
use actix_web::http::header::{HeaderMap, HeaderName, HeaderValue};

#[derive(Clone, Copy, Debug)]
enum Op { Insert(usize, usize), Append(usize, usize), Remove(usize), RetainNot(usize), Drain, Clear }

fn check_header_map() -> bool {
    let names = ["x-a", "x-b"];
    let upper = ["X-A", "X-B"];
    let vals = ["1", "2"];
    let mut ops = Vec::new();
    for k in 0..2 { for v in 0..2 { ops.push(Op::Insert(k, v)); ops.push(Op::Append(k, v)); } ops.push(Op::Remove(k)); }
    for v in 0..2 { ops.push(Op::RetainNot(v)); }
    ops.push(Op::Drain);
    ops.push(Op::Clear);
    let mut seqs: Vec<Vec<Op>> = vec![vec![]];
    let depth = if std::env::var("VERIF_HARNESS_TIER").map(|v| v == "thorough").unwrap_or(false) { 5 } else { 4 };
    let mut layer: Vec<Vec<Op>> = vec![vec![]];
    for _ in 0..depth {
        let mut next = Vec::new();
        for s in &layer { for o in &ops { let mut t = s.clone(); t.push(*o); next.push(t); } }
        seqs.extend(next.iter().cloned());
        layer = next;
    }
    let mut n = 0usize;
    for seq in &seqs {
        n += 1;
        let r = catch_unwind(AssertUnwindSafe(|| {
            let mut map = HeaderMap::new();
            // reference: name index -> values in insertion order (names without values are absent)
            let mut model: Vec<Vec<usize>> = vec![vec![], vec![]];
            for op in seq {
                match *op {
                    Op::Insert(k, v) => { map.insert(HeaderName::from_static(names[k]), HeaderValue::from_static(vals[v])); model[k] = vec![v]; }
                    Op::Append(k, v) => { map.append(HeaderName::from_static(names[k]), HeaderValue::from_static(vals[v])); model[k].push(v); }
                    Op::Remove(k) => {
                        let removed: Vec<String> = map.remove(upper[k]).map(|v| v.to_str().unwrap().to_owned()).collect();
                        let exp: Vec<String> = model[k].iter().map(|v| vals[*v].to_owned()).collect();
                        if removed != exp { return Err(format!("remove({}) yielded {:?}, expected {:?}", names[k], removed, exp)); }
                        model[k].clear();
                    }
                    Op::RetainNot(v) => { map.retain(|_, val| val.as_bytes() != vals[v].as_bytes()); for m in model.iter_mut() { m.retain(|x| *x != v); } }
                    Op::Drain => {
                        let mut got: Vec<Vec<String>> = vec![vec![], vec![]];
                        let mut cur: Option<usize> = None;
                        let d = map.drain();
                        let hint = d.size_hint();
                        let mut count = 0;
                        for (name, val) in d {
                            count += 1;
                            if let Some(nm) = name { cur = names.iter().position(|x| *x == nm.as_str()); }
                            match cur { Some(k) => got[k].push(val.to_str().unwrap().to_owned()), None => return Err("drain: a value without a name before any name".to_owned()) }
                        }
                        let total: usize = model.iter().map(|m| m.len()).sum();
                        if hint != (total, Some(total)) || count != total { return Err(format!("drain: size_hint {:?}, yielded {}, expected {}", hint, count, total)); }
                        for k in 0..2 { let exp: Vec<String> = model[k].iter().map(|v| vals[*v].to_owned()).collect(); if got[k] != exp { return Err(format!("drain: values of {} are {:?}, expected {:?}", names[k], got[k], exp)); } }
                        for m in model.iter_mut() { m.clear(); }
                    }
                    Op::Clear => { map.clear(); for m in model.iter_mut() { m.clear(); } }
                }
                // observation after every step
                let total: usize = model.iter().map(|m| m.len()).sum();
                let keys = model.iter().filter(|m| !m.is_empty()).count();
                if map.len() != total { return Err(format!("len() = {}, expected {}", map.len(), total)); }
                if map.len_keys() != keys { return Err(format!("len_keys() = {}, expected {}", map.len_keys(), keys)); }
                if map.is_empty() != (total == 0) { return Err(format!("is_empty() = {}", map.is_empty())); }
                let it = map.iter();
                if it.size_hint() != (total, Some(total)) { return Err(format!("iter().size_hint() = {:?}, expected {}", it.size_hint(), total)); }
                let mut seen: Vec<Vec<String>> = vec![vec![], vec![]];
                for (nm, val) in it { match names.iter().position(|x| *x == nm.as_str()) { Some(k) => seen[k].push(val.to_str().unwrap().to_owned()), None => return Err("iter: unknown name".to_owned()) } }
                for k in 0..2 {
                    let exp: Vec<String> = model[k].iter().map(|v| vals[*v].to_owned()).collect();
                    if seen[k] != exp { return Err(format!("iter: values of {} are {:?}, expected {:?}", names[k], seen[k], exp)); }
                    let all: Vec<String> = map.get_all(upper[k]).map(|v| v.to_str().unwrap().to_owned()).collect();
                    if all != exp { return Err(format!("get_all({}) = {:?}, expected {:?}", upper[k], all, exp)); }
                    let first = map.get(upper[k]).map(|v| v.to_str().unwrap().to_owned());
                    if first != exp.first().cloned() { return Err(format!("get({}) = {:?}, expected {:?}", upper[k], first, exp.first())); }
                    if map.contains_key(upper[k]) != !exp.is_empty() { return Err(format!("contains_key({}) wrong", upper[k])); }
                }
            }
            // conversion from and to http::HeaderMap preserves every pair (values of a name in order)
            let mut hm = http::HeaderMap::new();
            for k in [1usize, 0] { for v in &model[k] { hm.append(http::header::HeaderName::from_static(names[k]), http::HeaderValue::from_static(vals[*v])); } }
            let conv = HeaderMap::from(hm.clone());
            for k in 0..2 {
                let exp: Vec<String> = model[k].iter().map(|v| vals[*v].to_owned()).collect();
                let all: Vec<String> = conv.get_all(names[k]).map(|v| v.to_str().unwrap().to_owned()).collect();
                if all != exp { return Err(format!("from http::HeaderMap: values of {} are {:?}, expected {:?}", names[k], all, exp)); }
            }
            let back = http::HeaderMap::from(map.clone());
            for k in 0..2 {
                let exp: Vec<String> = model[k].iter().map(|v| vals[*v].to_owned()).collect();
                let all: Vec<String> = back.get_all(names[k]).iter().map(|v| v.to_str().unwrap().to_owned()).collect();
                if all != exp { return Err(format!("into http::HeaderMap: values of {} are {:?}, expected {:?}", names[k], all, exp)); }
            }
            Ok(())
        }));
        let res = match r { Ok(x) => x, Err(_) => Err("panic".to_owned()) };
        if let Err(why) = res {
            println!("BOUNDED-FAIL header_map_ops input={:?} expected=the reference multimap got={}", seq, why);
            return false;
        }
    }
    println!("BOUNDED-OK header_map_ops cases={}", n);
    true
}

// ---------------------------------------------------------------- typed header parsers never panic (C19)
fn check_header_parsers_no_panic() -> bool {
    use actix_web::http::header::{ContentDisposition, Range};
    use std::str::FromStr;
    let alpha: &[u8] = b"a;=\"\\*' -,";
    let mut all: Vec<Vec<u8>> = vec![vec![]];
    let mut layer: Vec<Vec<u8>> = vec![vec![]];
    for _ in 0..6 {
        let mut next = Vec::new();
        for s in &layer { for &c in alpha { let mut t = s.clone(); t.push(c); next.push(t); } }
        all.extend(next.iter().cloned());
        layer = next;
    }
    let mut n = 0usize;
    for s in &all {
        n += 1;
        let mut with_prefix = b"form-data; name".to_vec();
        with_prefix.extend_from_slice(s);
        for bytes in [s.clone(), with_prefix] {
            if let Ok(hv) = HeaderValue::from_bytes(&bytes) {
                if catch_unwind(AssertUnwindSafe(|| { let _ = ContentDisposition::from_raw(&hv); })).is_err() {
                    println!("BOUNDED-FAIL header_parsers_no_panic input=Content-Disposition {:?} expected=Ok or Err got=panic", String::from_utf8_lossy(&bytes));
                    return false;
                }
            }
        }
        let mut r = b"bytes=".to_vec();
        r.extend(s.iter().map(|c| match c { b'a' => b'1', b'*' => b'9', b'\'' => b'0', o => *o }));
        if let Ok(text) = std::str::from_utf8(&r) {
            if catch_unwind(AssertUnwindSafe(|| { if let Ok(Range::Bytes(specs)) = Range::from_str(text) { for sp in specs { for len in [0u64, 1, 10, u64::MAX] { let _ = sp.to_satisfiable_range(len); } } } })).is_err() {
                println!("BOUNDED-FAIL header_parsers_no_panic input=Range {:?} expected=Ok or Err got=panic", text);
                return false;
            }
        }
    }
    println!("BOUNDED-OK header_parsers_no_panic cases={}", n);
    true
}

// ---------------------------------------------------------------- multipart end to end (C15)
mod mp {
    use std::{pin::Pin, task::{Context, Poll}};
    use actix_multipart::Multipart;
    use actix_web::{error::PayloadError, http::header::{HeaderMap, HeaderValue, CONTENT_TYPE}, web::Bytes};
    use futures_core::Stream;

    /// the request body as a stream of the given pieces, then the end
    struct Pieces { items: Vec<Vec<u8>>, pos: usize }
    impl Stream for Pieces {
        type Item = Result<Bytes, PayloadError>;
        fn poll_next(mut self: Pin<&mut Self>, _: &mut Context<'_>) -> Poll<Option<Self::Item>> {
            if self.pos < self.items.len() { let b = Bytes::from(self.items[self.pos].clone()); self.pos += 1; Poll::Ready(Some(Ok(b))) } else { Poll::Ready(None) }
        }
    }

    #[derive(Debug, PartialEq)]
    pub enum Outcome { Fields(Vec<(String, Vec<u8>)>), Error(Vec<(String, Vec<u8>)>), Hang }

    /// drives Multipart by hand with a no-op waker; a Pending that persists once the body stream has ended is a hang
    pub fn parse(pieces: Vec<Vec<u8>>) -> Outcome {
        let mut headers = HeaderMap::new();
        headers.insert(CONTENT_TYPE, HeaderValue::from_static("multipart/form-data; boundary=bnd"));
        let mut mp = Multipart::new(&headers, Pieces { items: pieces, pos: 0 });
        let waker = futures_util::task::noop_waker();
        let mut cx = Context::from_waker(&waker);
        let mut out: Vec<(String, Vec<u8>)> = Vec::new();
        let mut idle = 0;
        loop {
            match Pin::new(&mut mp).poll_next(&mut cx) {
                Poll::Ready(None) => return Outcome::Fields(out),
                Poll::Ready(Some(Err(_))) => return Outcome::Error(out),
                Poll::Ready(Some(Ok(mut field))) => {
                    idle = 0;
                    let name = field.name().unwrap_or("").to_owned();
                    let mut data = Vec::new();
                    let mut fidle = 0;
                    loop {
                        match Pin::new(&mut field).poll_next(&mut cx) {
                            Poll::Ready(Some(Ok(b))) => { fidle = 0; data.extend_from_slice(&b) }
                            Poll::Ready(Some(Err(_))) => { out.push((name, data)); return Outcome::Error(out); }
                            Poll::Ready(None) => break,
                            Poll::Pending => { fidle += 1; if fidle > 10_000 { return Outcome::Hang; } }
                        }
                    }
                    out.push((name, data));
                }
                Poll::Pending => { idle += 1; if idle > 10_000 { return Outcome::Hang; } }
            }
        }
    }
}

fn check_multipart() -> bool {
    // contents with CR, LF, dashes and partial boundary look-alikes (never the full delimiter CRLF "--bnd", and not the
    // bare-CR look-alike of the listed finding C15 end_only_at_crlf_delimiter)
    let contents: Vec<&[u8]> = vec![b"", b"a", b"ab", b"\r\n", b"\n", b"-", b"--", b"\r\n-", b"\r\n--b", b"a\r\n--bn-", b"--bnd", b"x--bnd--"];
    let mut n = 0usize;
    let mut bodies: Vec<(Vec<u8>, Vec<(String, Vec<u8>)>)> = Vec::new();
    for a in &contents {
        let mut one = Vec::new();
        one.extend_from_slice(b"--bnd\r\nContent-Disposition: form-data; name=\"f0\"\r\n\r\n"); one.extend_from_slice(a); one.extend_from_slice(b"\r\n--bnd--\r\n");
        bodies.push((one, vec![("f0".to_owned(), a.to_vec())]));
        for b in &contents {
            let mut two = Vec::new();
            two.extend_from_slice(b"--bnd\r\nContent-Disposition: form-data; name=\"f0\"\r\n\r\n"); two.extend_from_slice(a);
            two.extend_from_slice(b"\r\n--bnd\r\nContent-Disposition: form-data; name=\"f1\"\r\nContent-Type: text/plain\r\n\r\n"); two.extend_from_slice(b);
            two.extend_from_slice(b"\r\n--bnd--\r\n");
            bodies.push((two, vec![("f0".to_owned(), a.to_vec()), ("f1".to_owned(), b.to_vec())]));
        }
    }
    for (body, fields) in &bodies {
        let mut segs: Vec<Vec<Vec<u8>>> = vec![vec![body.clone()]];
        for cut in 1..body.len() { segs.push(vec![body[..cut].to_vec(), body[cut..].to_vec()]); }
        segs.push(body.chunks(1).map(|c| c.to_vec()).collect());
        for seg in segs {
            n += 1;
            let sizes: Vec<usize> = seg.iter().map(|p| p.len()).collect();
            let got = match catch_unwind(AssertUnwindSafe(|| mp::parse(seg))) { Ok(g) => g, Err(_) => { println!("BOUNDED-FAIL multipart_fields input={:?} pieces={:?} expected={:?} got=panic", String::from_utf8_lossy(body), sizes, fields); return false; } };
            if got != mp::Outcome::Fields(fields.clone()) {
                println!("BOUNDED-FAIL multipart_fields input={:?} pieces={:?} expected={:?} got={:?}", String::from_utf8_lossy(body), sizes, fields, got);
                return false;
            }
        }
        // truncated anywhere before the closing delimiter is complete: an error, never a hang and never a clean end
        for cut in 0..body.len() - 2 {
            n += 1;
            let got = match catch_unwind(AssertUnwindSafe(|| mp::parse(vec![body[..cut].to_vec()]))) { Ok(g) => g, Err(_) => mp::Outcome::Hang };
            let bad = match &got { mp::Outcome::Error(_) => false, mp::Outcome::Hang => true, mp::Outcome::Fields(_) => true };
            if bad {
                println!("BOUNDED-FAIL multipart_truncated input={:?} expected=an error got={:?}", String::from_utf8_lossy(&body[..cut]), got);
                return false;
            }
        }
    }
    println!("BOUNDED-OK multipart_fields cases={}", n);
    true
}

// ---------------------------------------------------------------- buffering extractors end to end (C12)
mod ext {
    use actix_web::{dev::Payload, error::PayloadError, http::StatusCode, test, web, App, HttpResponse};
    use futures_util::stream;

    pub const LIMIT: usize = 8;

    fn compositions(n: usize, parts: usize) -> Vec<Vec<usize>> {
        // all ways to cut n bytes into at most `parts` non-empty pieces (plus the whole)
        if n == 0 { return vec![vec![]]; }
        let mut out = vec![vec![n]];
        if parts > 1 { for first in 1..n { for rest in compositions(n - first, parts - 1) { let mut v = vec![first]; v.extend(rest); out.push(v); } } }
        out.sort(); out.dedup();
        out
    }

    pub async fn check() -> Result<usize, String> {
        let app = test::init_service(
            App::new()
                .app_data(web::PayloadConfig::new(LIMIT))
                .app_data(web::JsonConfig::default().limit(LIMIT))
                .app_data(web::FormConfig::default().limit(LIMIT))
                .route("/bytes", web::post().to(|b: web::Bytes| async move { HttpResponse::Ok().body(b.len().to_string()) }))
                .route("/string", web::post().to(|b: String| async move { HttpResponse::Ok().body(b.len().to_string()) }))
                .route("/json", web::post().to(|b: web::Json<String>| async move { HttpResponse::Ok().body((b.0.len() + 2).to_string()) }))
                .route("/form", web::post().to(|b: web::Form<std::collections::HashMap<String, String>>| async move { HttpResponse::Ok().body((b.0.get("a").map(|v| v.len()).unwrap_or(0) + 2).to_string()) })),
        ).await;
        let mut n = 0usize;
        for (path, ctype) in [("/bytes", "application/octet-stream"), ("/string", "text/plain"), ("/json", "application/json"), ("/form", "application/x-www-form-urlencoded")] {
            for len in 0..=LIMIT + 4 {
                let body: Vec<u8> = match path {
                    "/json" => { if len < 2 { continue; } let mut v = vec![b'"']; v.extend(std::iter::repeat(b'x').take(len - 2)); v.push(b'"'); v }
                    "/form" => { if len < 2 { continue; } let mut v = b"a=".to_vec(); v.extend(std::iter::repeat(b'x').take(len - 2)); v }
                    _ => vec![b'x'; len],
                };
                for comp in compositions(len, 3) {
                    for declare_length in [true, false] {
                        n += 1;
                        let mut rq = test::TestRequest::post().uri(path).insert_header(("content-type", ctype));
                        if declare_length { rq = rq.insert_header(("content-length", len.to_string())); }
                        let req = rq.to_request();
                        let mut pieces: Vec<Result<web::Bytes, PayloadError>> = Vec::new();
                        let mut at = 0;
                        for c in &comp { pieces.push(Ok(web::Bytes::copy_from_slice(&body[at..at + c]))); at += c; }
                        let boxed: std::pin::Pin<Box<dyn futures_core::Stream<Item = Result<web::Bytes, PayloadError>>>> = Box::pin(stream::iter(pieces));
                        let (req, _) = req.replace_payload(Payload::Stream { payload: boxed });
                        let res = test::call_service(&app, req).await;
                        let status = res.status();
                        let text = test::read_body(res).await;
                        let ok = if len <= LIMIT { status == StatusCode::OK && text == len.to_string().as_bytes() } else { status == StatusCode::PAYLOAD_TOO_LARGE };
                        if !ok {
                            return Err(format!("input=({} body of {} bytes in pieces {:?}, content-length {}) expected={} got=(status {}, body {:?})", path, len, comp,
                                if declare_length { "declared" } else { "absent" }, if len <= LIMIT { format!("200 with {}", len) } else { "413".to_owned() }, status.as_u16(), String::from_utf8_lossy(&text)));
                        }
                    }
                }
            }
        }
        Ok(n)
    }
}

// ---------------------------------------------------------------- response compression end to end (C13)
mod comp {
    use std::io::Read;
    use actix_web::{http::{header, StatusCode}, middleware::Compress, test, web, App, HttpRequest, HttpResponse};
    use futures_util::stream;

    fn body_of(len: usize) -> Vec<u8> { (0..len).map(|i| b"abcdefghij"[(i * 7 + i / 10) % 10]).collect() }

    pub async fn check() -> Result<usize, String> {
        // /s/{len}/{chunk}: a streamed body of `len` bytes in chunks of `chunk` bytes (0 = one sized body); /e: already encoded; /p: 206
        let app = test::init_service(
            App::new()
                .wrap(Compress::default())
                .route("/s/{len}/{chunk}", web::get().to(|req: HttpRequest| async move {
                    let len: usize = req.match_info().get("len").unwrap().parse().unwrap();
                    let chunk: usize = req.match_info().get("chunk").unwrap().parse().unwrap();
                    let body = body_of(len);
                    if chunk == 0 { HttpResponse::Ok().body(body) } else {
                        let pieces: Vec<Result<web::Bytes, std::io::Error>> = body.chunks(chunk).map(|c| Ok(web::Bytes::copy_from_slice(c))).collect();
                        HttpResponse::Ok().streaming(stream::iter(pieces))
                    }
                }))
                .route("/e", web::get().to(|| async { HttpResponse::Ok().insert_header((header::CONTENT_ENCODING, "x-custom")).body(body_of(3000)) }))
                .route("/p", web::get().to(|| async { HttpResponse::PartialContent().body(body_of(3000)) }))
                .route("/n", web::get().to(|| async { HttpResponse::NoContent().finish() })),
        ).await;
        let mut n = 0usize;
        let accepts = ["gzip", "deflate", "identity", "gzip;q=0.5, deflate", "*", "gzip;q=0, *", "br;q=0, gzip"];
        for len in [0usize, 1, 100, 1023, 1024, 1025, 2047, 2048, 2049, 5000] {
            for chunk in [0usize, 1, 7, 1024, 4096] {
                if chunk == 1 && len > 1100 { continue; }
                for ae in accepts {
                    n += 1;
                    let req = test::TestRequest::get().uri(&format!("/s/{}/{}", len, chunk)).insert_header((header::ACCEPT_ENCODING, ae)).to_request();
                    let res = test::call_service(&app, req).await;
                    if res.status() != StatusCode::OK { return Err(format!("input=(len {} chunk {} accept-encoding {:?}) expected=200 got={}", len, chunk, ae, res.status())); }
                    let coding = res.headers().get(header::CONTENT_ENCODING).map(|v| v.to_str().unwrap().to_owned());
                    let declared = res.headers().get(header::CONTENT_LENGTH).map(|v| v.to_str().unwrap().parse::<usize>().unwrap());
                    let raw = test::read_body(res).await;
                    if let Some(d) = declared { if d != raw.len() { return Err(format!("input=(len {} chunk {} accept-encoding {:?}) expected=content-length equal to the body sent got=(content-length {}, {} bytes)", len, chunk, ae, d, raw.len())); } }
                    let decoded: Vec<u8> = match coding.as_deref() {
                        None | Some("identity") => raw.to_vec(),
                        Some("gzip") => { let mut v = Vec::new(); flate2::read::GzDecoder::new(&raw[..]).read_to_end(&mut v).map_err(|e| format!("input=(len {} chunk {} accept-encoding {:?}) expected=a complete gzip stream got={}", len, chunk, ae, e))?; v }
                        Some("deflate") => { let mut v = Vec::new(); flate2::read::ZlibDecoder::new(&raw[..]).read_to_end(&mut v).map_err(|e| format!("input=(len {} chunk {} accept-encoding {:?}) expected=a complete deflate stream got={}", len, chunk, ae, e))?; v }
                        Some(other) => return Err(format!("input=(len {} chunk {} accept-encoding {:?}) expected=a known coding got={}", len, chunk, ae, other)),
                    };
                    if decoded != body_of(len) { return Err(format!("input=(len {} chunk {} accept-encoding {:?}) expected=the handler's {} bytes after decoding {:?} got={} bytes", len, chunk, ae, len, coding, decoded.len())); }
                    // the coding must be one the field permits
                    let refused_gzip = ae.contains("gzip;q=0");
                    if coding.as_deref() == Some("gzip") && (refused_gzip || ae == "deflate" || ae == "identity") { return Err(format!("input=(accept-encoding {:?}) expected=a permitted coding got=gzip", ae)); }
                    if coding.as_deref() == Some("deflate") && (ae == "gzip" || ae == "identity" || ae == "br;q=0, gzip") { return Err(format!("input=(accept-encoding {:?}) expected=a permitted coding got=deflate", ae)); }
                }
            }
        }
        // responses that must not be re-encoded pass through unchanged
        for (uri, status, len) in [("/e", StatusCode::OK, 3000usize), ("/p", StatusCode::PARTIAL_CONTENT, 3000), ("/n", StatusCode::NO_CONTENT, 0)] {
            n += 1;
            let req = test::TestRequest::get().uri(uri).insert_header((header::ACCEPT_ENCODING, "gzip")).to_request();
            let res = test::call_service(&app, req).await;
            let coding = res.headers().get(header::CONTENT_ENCODING).map(|v| v.to_str().unwrap().to_owned());
            let st = res.status();
            let raw = test::read_body(res).await;
            let exp_coding = if uri == "/e" { Some("x-custom".to_owned()) } else { None };
            if st != status || coding != exp_coding || raw.to_vec() != body_of(len) { return Err(format!("input=({} with accept-encoding gzip) expected=(status {}, content-encoding {:?}, the body unchanged) got=(status {}, content-encoding {:?}, {} bytes)", uri, status, exp_coding, st, coding, raw.len())); }
        }
        Ok(n)
    }
}

// ---------------------------------------------------------------- routing and request isolation through an in-memory App (C09, C11)
mod routing {
    use actix_web::{guard, http::Method, test, web, App, HttpMessage, HttpRequest, HttpResponse};

    struct Marker(String);

    fn who(tag: &'static str) -> impl Fn(HttpRequest) -> std::future::Ready<HttpResponse> + Clone {
        move |req: HttpRequest| {
            // everything a handler can observe about the request that could leak from an earlier one
            let params: Vec<String> = req.match_info().iter().map(|(k, v)| format!("{}={}", k, v)).collect();
            let leaked = req.extensions().get::<Marker>().map(|m| m.0.clone()).unwrap_or_default();
            let hdr = req.headers().get("x-h").map(|v| v.to_str().unwrap().to_owned()).unwrap_or_default();
            let pattern = req.match_pattern().unwrap_or_default();
            let out = format!("{}|{}|{}|{}|{}|{}", tag, params.join(","), leaked, hdr, pattern, req.uri());
            // leave something behind in the request-local extensions: it must not be visible to a later request
            req.extensions_mut().insert(Marker(format!("left-by-{}", req.uri())));
            std::future::ready(HttpResponse::Ok().body(out))
        }
    }

    pub async fn check() -> Result<usize, String> {
        let app = test::init_service(
            App::new()
                .service(web::scope("/a")
                    .service(web::resource("/x").route(web::get().to(who("A_X"))))
                    .service(web::resource("/{id}").route(web::get().to(who("A_ID"))))
                    .default_service(web::to(who("A_DEF"))))
                .service(web::resource("/a/x").route(web::get().to(who("SHADOWED"))))
                .service(web::resource("/b/{p}").route(web::get().to(who("B_GET"))).route(web::post().to(who("B_POST"))))
                .service(web::resource("/c").guard(guard::Header("x-g", "1")).route(web::get().to(who("C_G"))))
                .service(web::resource("/c").route(web::get().to(who("C_PLAIN"))))
                .default_service(web::to(who("APP_DEF"))),
        ).await;
        // (method, uri, x-g header, expected tag or status, expected params)
        let cases: Vec<(Method, &str, bool, &str, &str)> = vec![
            (Method::GET, "/a/x", false, "A_X", ""), (Method::GET, "/a/y", false, "A_ID", "id=y"), (Method::GET, "/a/x/z", false, "A_DEF", ""),
            (Method::GET, "/a/%78", false, "A_X", ""), (Method::GET, "/ab", false, "APP_DEF", ""), (Method::GET, "/a%2Fx", false, "APP_DEF", ""),
            (Method::GET, "/b/1", false, "B_GET", "p=1"), (Method::POST, "/b/1", false, "B_POST", "p=1"), (Method::PUT, "/b/1", false, "405", ""),
            (Method::GET, "/b/1/2", false, "APP_DEF", ""), (Method::GET, "/b/", false, "APP_DEF", ""), (Method::GET, "/b/a%2Fb", false, "B_GET", "p=a%2Fb"),
            (Method::GET, "/c", true, "C_G", ""), (Method::GET, "/c", false, "C_PLAIN", ""), (Method::GET, "/zzz", false, "APP_DEF", ""),
        ];
        let mut n = 0usize;
        // every ordered pair of requests: the answer to the second must not depend on the first (request isolation),
        // and each answer must be the route the property names
        for first in 0..=cases.len() {
            for (k, (method, uri, g, tag, params)) in cases.iter().enumerate() {
                n += 1;
                if first < cases.len() {
                    let (m0, u0, g0, _, _) = &cases[first];
                    let mut r0 = test::TestRequest::with_uri(u0).method(m0.clone()).insert_header(("x-h", "first"));
                    if *g0 { r0 = r0.insert_header(("x-g", "1")); }
                    let _ = test::call_service(&app, r0.to_request()).await;
                }
                let mut rq = test::TestRequest::with_uri(uri).method(method.clone());
                if *g { rq = rq.insert_header(("x-g", "1")); }
                let res = test::call_service(&app, rq.to_request()).await;
                let status = res.status().as_u16();
                let body = String::from_utf8_lossy(&test::read_body(res).await).into_owned();
                let got = if status == 200 { body.clone() } else { status.to_string() };
                let f: Vec<&str> = got.split('|').collect();
                let ok = if *tag == "405" { status == 405 } else { status == 200 && f.len() == 6 && f[0] == *tag && f[1] == *params && f[2].is_empty() && f[3].is_empty() && f[5] == *uri };
                if !ok {
                    return Err(format!("input=({} {}{}{}) expected=(handler {}, params {:?}, nothing left over from an earlier request) got={:?}", method, uri, if *g { " with x-g: 1" } else { "" },
                        if first < cases.len() { format!(" after {} {}", cases[first].0, cases[first].1) } else { String::new() }, tag, params, got));
                }
                let _ = k;
            }
        }
        Ok(n)
    }
}

fn guarded(name: &str, f: impl FnOnce() -> bool) -> bool {
    // a panic inside one family must not take the other families (other properties' checks) down with it
    match catch_unwind(AssertUnwindSafe(f)) {
        Ok(b) => b,
        Err(_) => { println!("BOUNDED-FAIL {} input=(see harness) expected=no panic got=panic inside the real crate", name); false }
    }
}

fn main() {
    std::panic::set_hook(Box::new(|_| {}));
    let dir = std::env::current_dir().unwrap().join("files");
    let _ = std::fs::create_dir_all(&dir);
    let mut ok = true;
    ok &= guarded("negotiate", check_negotiate);
    ok &= guarded("file_ranges", || check_ranges(&dir));
    ok &= guarded("file_conditionals", || check_conditionals(&dir));
    ok &= guarded("header_map_ops", check_header_map);
    ok &= guarded("header_parsers_no_panic", check_header_parsers_no_panic);
    ok &= guarded("multipart_fields", || actix_web::rt::System::new().block_on(async { check_multipart() }));
    ok &= guarded("extractor_limits", || match actix_web::rt::System::new().block_on(ext::check()) { Ok(n) => { println!("BOUNDED-OK extractor_limits cases={}", n); true } Err(e) => { println!("BOUNDED-FAIL extractor_limits {}", e); false } });
    ok &= guarded("compress_end_to_end", || match actix_web::rt::System::new().block_on(comp::check()) { Ok(n) => { println!("BOUNDED-OK compress_end_to_end cases={}", n); true } Err(e) => { println!("BOUNDED-FAIL compress_end_to_end {}", e); false } });
    ok &= guarded("routing_and_isolation", || match actix_web::rt::System::new().block_on(routing::check()) { Ok(n) => { println!("BOUNDED-OK routing_and_isolation cases={}", n); true } Err(e) => { println!("BOUNDED-FAIL routing_and_isolation {}", e); false } });
    std::process::exit(if ok { 0 } else { 1 });
}
