//! BOUNDED stand-in for the end-to-end part of C17: the REAL awc client from the working tree talks, through a custom
//! connector, to scripted in-memory servers that answer with hand-written response bytes under every two-piece
//! segmentation, close early, or leave garbage behind on a kept-alive connection.  Labelled bounded; never counted as proved.
use std::{cell::RefCell, io, pin::Pin, rc::Rc, task::{Context, Poll}, time::Duration};

use actix_rt::net::{ActixStream, Ready};
use actix_service::fn_service;
use actix_tls::connect::{ConnectError, ConnectInfo, Connection};
use awc::{http::Uri, Client, Connector};
use tokio::io::{AsyncRead, AsyncReadExt, AsyncWrite, AsyncWriteExt, DuplexStream, ReadBuf};

#[derive(Debug)]
struct Mem(DuplexStream);
impl AsyncRead for Mem { fn poll_read(mut self: Pin<&mut Self>, cx: &mut Context<'_>, buf: &mut ReadBuf<'_>) -> Poll<io::Result<()>> { Pin::new(&mut self.0).poll_read(cx, buf) } }
impl AsyncWrite for Mem {
    fn poll_write(mut self: Pin<&mut Self>, cx: &mut Context<'_>, buf: &[u8]) -> Poll<io::Result<usize>> { Pin::new(&mut self.0).poll_write(cx, buf) }
    fn poll_flush(mut self: Pin<&mut Self>, cx: &mut Context<'_>) -> Poll<io::Result<()>> { Pin::new(&mut self.0).poll_flush(cx) }
    fn poll_shutdown(mut self: Pin<&mut Self>, cx: &mut Context<'_>) -> Poll<io::Result<()>> { Pin::new(&mut self.0).poll_shutdown(cx) }
}
impl ActixStream for Mem {
    fn poll_read_ready(&self, _: &mut Context<'_>) -> Poll<io::Result<Ready>> { Poll::Ready(Ok(Ready::READABLE)) }
    fn poll_write_ready(&self, _: &mut Context<'_>) -> Poll<io::Result<Ready>> { Poll::Ready(Ok(Ready::WRITABLE)) }
}

/// what the scripted server does on the n-th connection: for every request it reads, write these pieces; then close or keep the connection
#[derive(Clone)]
struct Script { answers: Vec<Vec<Vec<u8>>>, close_after: bool, late: Vec<u8> /* written unasked, a moment after the first answer */ }

fn client_for(scripts: Rc<RefCell<Vec<Script>>>, opened: Rc<RefCell<usize>>) -> Client {
    let connector = Connector::new().connector(fn_service(move |req: ConnectInfo<Uri>| {
        let script = { let mut s = scripts.borrow_mut(); if s.is_empty() { None } else { Some(s.remove(0)) } };
        *opened.borrow_mut() += 1;
        async move {
            let script = script.ok_or(ConnectError::Unresolved)?;
            let (client_end, mut server_end) = tokio::io::duplex(1 << 20);
            actix_rt::spawn(async move {
                let mut late_sent = false;
                for pieces in script.answers.clone() {
                    // read one request head
                    let mut seen = Vec::new(); let mut b = [0u8; 1];
                    loop { match server_end.read(&mut b).await { Ok(1) => { seen.push(b[0]); if seen.ends_with(b"\r\n\r\n") { break; } } _ => return } }
                    for p in pieces { if server_end.write_all(&p).await.is_err() { return; } let _ = server_end.flush().await; actix_rt::task::yield_now().await; }
                    if !script.late.is_empty() && !late_sent { late_sent = true; actix_rt::time::sleep(Duration::from_millis(5)).await; let _ = server_end.write_all(&script.late).await; let _ = server_end.flush().await; }
                }
                if script.close_after { let _ = server_end.shutdown().await; drop(server_end); } else { actix_rt::time::sleep(Duration::from_secs(30)).await; }
            });
            let uri = req.request().clone();
            Ok::<_, ConnectError>(Connection::new(uri, Mem(client_end)))
        }
    }));
    Client::builder().connector(connector).timeout(Duration::from_secs(10)).finish()
}

async fn fetch(client: &Client) -> Result<Vec<u8>, String> {
    let mut res = client.get("http://mem.test/").send().await.map_err(|e| format!("send: {}", e))?;
    let body = res.body().limit(10_000_000).await.map_err(|e| format!("body: {}", e))?;
    Ok(body.to_vec())
}

fn one(answer: Vec<Vec<u8>>, close_after: bool) -> Rc<RefCell<Vec<Script>>> { Rc::new(RefCell::new(vec![Script { answers: vec![answer], close_after, late: vec![] }])) }

async fn checks() -> bool {
    let mut n = 0usize;
    // (response bytes, the connection closes after them, Some(body) if that is a completely framed response else None)
    let cases: Vec<(&[u8], bool, Option<&[u8]>)> = vec![
        (b"HTTP/1.1 200 OK\r\ncontent-length: 5\r\n\r\nhello", true, Some(b"hello")), (b"HTTP/1.1 200 OK\r\ncontent-length: 5\r\n\r\nhello", false, Some(b"hello")),
        (b"HTTP/1.1 200 OK\r\ncontent-length: 0\r\n\r\n", false, Some(b"")),
        (b"HTTP/1.1 200 OK\r\ntransfer-encoding: chunked\r\n\r\n5\r\nhello\r\n0\r\n\r\n", false, Some(b"hello")), (b"HTTP/1.1 200 OK\r\ntransfer-encoding: chunked\r\n\r\n2\r\nhe\r\n3\r\nllo\r\n0\r\n\r\n", true, Some(b"hello")),
        (b"HTTP/1.0 200 OK\r\n\r\nhello", true, Some(b"hello")),                                     // close-delimited (HTTP/1.0; an unframed HTTP/1.1 response is outside the property)
        (b"HTTP/1.1 200 OK\r\ncontent-length: 10\r\n\r\nhello", true, None),                           // cut short
        (b"HTTP/1.1 200 OK\r\ntransfer-encoding: chunked\r\n\r\n5\r\nhel", true, None), (b"HTTP/1.1 200 OK\r\ntransfer-encoding: chunked\r\n\r\n5\r\nhello\r\n", true, None),
        (b"HTTP/1.1 200 OK\r\ntransfer-encoding: chunked\r\n\r\n5\r\nhello\r\n0\r\n", true, None),
    ];
    for (bytes, close, body) in &cases {
        let mut segs: Vec<Vec<Vec<u8>>> = vec![vec![bytes.to_vec()]];
        for cut in 1..bytes.len() { segs.push(vec![bytes[..cut].to_vec(), bytes[cut..].to_vec()]); }
        for seg in segs {
            n += 1;
            let sizes: Vec<usize> = seg.iter().map(|p| p.len()).collect();
            let client = client_for(one(seg, *close), Rc::new(RefCell::new(0)));
            let got = fetch(&client).await;
            let ok = match (body, &got) { (Some(b), Ok(g)) => &g[..] == *b, (None, Err(_)) => true, _ => false };
            if !ok {
                println!("BOUNDED-FAIL client_body input=(response {:?} in pieces {:?}, then {}) expected={} got={:?}", String::from_utf8_lossy(bytes), sizes, if *close { "close" } else { "keep open" },
                    match body { Some(b) => format!("body {:?}", String::from_utf8_lossy(b)), None => "an error (the body is cut short)".to_owned() }, got.map(|g| String::from_utf8_lossy(&g).into_owned()));
                return false;
            }
        }
    }
    println!("BOUNDED-OK client_body cases={}", n);

    // reuse: a kept-alive connection on which the server left extra bytes after the framed body must not serve the next request
    let mut m = 0usize;
    for garbage in [&b""[..], &b"XX"[..], &b"HTTP/1.1 200 OK\r\ncontent-length: 4\r\n\r\nevil"[..]] {
        m += 1;
        let mut first = b"HTTP/1.1 200 OK\r\ncontent-length: 5\r\n\r\nfirst".to_vec();
        first.extend_from_slice(garbage);
        let good: Vec<u8> = b"HTTP/1.1 200 OK\r\ncontent-length: 6\r\n\r\nsecond".to_vec();
        // connection 1 answers request 1 (+ garbage) and, should it be reused, request 2 correctly as well; connection 2 answers correctly
        let scripts = Rc::new(RefCell::new(vec![Script { answers: vec![vec![first], vec![good.clone()]], close_after: false, late: vec![] }, Script { answers: vec![vec![good]], close_after: false, late: vec![] }]));
        let opened = Rc::new(RefCell::new(0));
        let client = client_for(scripts, opened.clone());
        let a = fetch(&client).await;
        actix_rt::time::sleep(Duration::from_millis(20)).await;
        let b = fetch(&client).await;
        // whether the connection is reused or replaced, the second request must get ITS response, never the left-over bytes
        let ok = a.as_deref() == Ok(&b"first"[..]) && b.as_deref() == Ok(&b"second"[..]);
        if !ok {
            println!("BOUNDED-FAIL client_reuse input=(first response followed by {:?} on a kept-alive connection, then a second request) expected=(first, second{}: never the left-over bytes) got=({:?}, {:?}, {} connection(s))",
                String::from_utf8_lossy(garbage), "", a.map(|v| String::from_utf8_lossy(&v).into_owned()), b.map(|v| String::from_utf8_lossy(&v).into_owned()), opened.borrow());
            return false;
        }
    }
    // the same left-over bytes arriving a moment AFTER the first exchange has ended (the connection is idle in the pool by then)
    for garbage in [&b"XX"[..], &b"HTTP/1.1 200 OK\r\ncontent-length: 4\r\n\r\nevil"[..]] {
        m += 1;
        let first = b"HTTP/1.1 200 OK\r\ncontent-length: 5\r\n\r\nfirst".to_vec();
        let good: Vec<u8> = b"HTTP/1.1 200 OK\r\ncontent-length: 6\r\n\r\nsecond".to_vec();
        let scripts = Rc::new(RefCell::new(vec![Script { answers: vec![vec![first], vec![good.clone()]], close_after: false, late: garbage.to_vec() }, Script { answers: vec![vec![good]], close_after: false, late: vec![] }]));
        let opened = Rc::new(RefCell::new(0));
        let client = client_for(scripts, opened.clone());
        let a = fetch(&client).await;
        actix_rt::time::sleep(Duration::from_millis(50)).await;
        let b = fetch(&client).await;
        if !(a.as_deref() == Ok(&b"first"[..]) && b.as_deref() == Ok(&b"second"[..])) {
            println!("BOUNDED-FAIL client_reuse input=(first response, then {:?} arriving on the idle pooled connection, then a second request) expected=(first, second: never the left-over bytes) got=({:?}, {:?}, {} connection(s))",
                String::from_utf8_lossy(garbage), a.map(|v| String::from_utf8_lossy(&v).into_owned()), b.map(|v| String::from_utf8_lossy(&v).into_owned()), opened.borrow());
            return false;
        }
    }
    println!("BOUNDED-OK client_reuse cases={}", m);
    true
}

fn main() {
    let ok = actix_rt::System::new().block_on(checks());
    std::process::exit(if ok { 0 } else { 1 });
}
