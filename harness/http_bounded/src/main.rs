//! BOUNDED stand-in for the end-to-end part of C01 that no contract composes (httparse + set_headers + Request::decode +
//! PayloadDecoder + Codec::decode together, and independence of TCP segmentation): the REAL actix-http h1::Codec from the
//! working tree decodes generated request streams, whole and cut in two at every position and byte by byte, and is
//! compared with the RFC 7230 3.3.3 framing rules (the same oracle the deductive unit h1_framing proves set_headers /
//! Request::decode against).  Labelled bounded; never counted as proved.
use actix_codec::Decoder;
use actix_http::h1::{Codec, Message};
use bytes::BytesMut;

#[derive(Debug, Clone, PartialEq)]
enum Ev { Req(String), Body(Vec<u8>), Reject }

#[derive(Clone, Copy, Debug, PartialEq)]
enum Framing { Reject, NoBody, Length(u64), Chunked }

/// RFC 7230 3.3.3 (+ RFC 1945 7.2.2 for HTTP/1.0 POST), over the framing headers of one request head
fn framing(http11: bool, post: bool, cls: &[&str], tes: &[&str]) -> Framing {
    // Content-Length: repeated -> reject; value must be 1*DIGIT that fits u64
    let mut cl: Option<u64> = None;
    if cls.len() > 1 { return Framing::Reject; }
    if let Some(v) = cls.first() {
        let t = v.trim();
        if t.is_empty() || !t.bytes().all(|b| b.is_ascii_digit()) { return Framing::Reject; }
        match t.parse::<u64>() { Ok(n) => cl = Some(n), Err(_) => return Framing::Reject }
    }
    let mut chunked = false;
    if !tes.is_empty() {
        // Transfer-Encoding: only HTTP/1.1, only a single `chunked`, never together with Content-Length
        if !http11 || tes.len() > 1 || cl.is_some() { return Framing::Reject; }
        if tes[0].trim().eq_ignore_ascii_case("chunked") { chunked = true; } else { return Framing::Reject; }
    }
    if !http11 && post && !chunked && cl.is_none() { return Framing::Reject; }
    if chunked { Framing::Chunked } else { match cl { Some(n) if n > 0 => Framing::Length(n), _ => Framing::NoBody } }
}

fn run(pieces: &[&[u8]]) -> Vec<Ev> {
    let mut codec = Codec::default();
    let mut buf = BytesMut::new();
    let mut evs: Vec<Ev> = Vec::new();
    'outer: for p in pieces {
        buf.extend_from_slice(p);
        loop {
            match codec.decode(&mut buf) {
                Ok(Some(Message::Item(req))) => evs.push(Ev::Req(req.path().to_owned())),
                Ok(Some(Message::Chunk(Some(b)))) => {
                    if let Some(Ev::Body(v)) = evs.last_mut() { v.extend_from_slice(&b); } else { evs.push(Ev::Body(b.to_vec())); }
                }
                Ok(Some(Message::Chunk(None))) => { if !matches!(evs.last(), Some(Ev::Body(_))) { evs.push(Ev::Body(vec![])); } }
                Ok(None) => break,
                Err(_) => { evs.push(Ev::Reject); break 'outer; }
            }
        }
    }
    evs
}

fn main() {
    // Codec::default() starts the date service, which needs a local task set
    let ok = actix_rt::System::new().block_on(async { checks() });
    std::process::exit(if ok { 0 } else { 1 });
}

fn checks() -> bool {
    let cl_sets: Vec<Vec<&str>> = vec![vec![], vec!["3"], vec!["03"], vec!["0"], vec!["+3"], vec!["3 "], vec!["abc"], vec!["3", "3"], vec!["3", "4"], vec!["-1"], vec!["3.0"]];
    let te_sets: Vec<Vec<&str>> = vec![vec![], vec!["chunked"], vec!["Chunked"], vec!["identity"], vec!["gzip"], vec!["gzip, chunked"], vec!["chunked", "chunked"], vec!["chunked", "identity"]];
    let mut n = 0usize;
    let mut ok = true;
    'all: for http11 in [true, false] { for post in [true, false] { for cls in &cl_sets { for tes in &te_sets {
        let mut head = format!("{} /1 HTTP/1.{}\r\nhost: x\r\n", if post { "POST" } else { "GET" }, if http11 { 1 } else { 0 });
        for c in cls { head.push_str(&format!("content-length: {}\r\n", c)); }
        for t in tes { head.push_str(&format!("transfer-encoding: {}\r\n", t)); }
        head.push_str("\r\n");
        let f = framing(http11, post, cls, tes);
        let mut bytes = head.into_bytes();
        let mut exp: Vec<Ev> = Vec::new();
        match f {
            Framing::Reject => exp.push(Ev::Reject),
            Framing::NoBody => { exp.push(Ev::Req("/1".into())); }
            Framing::Length(k) => { exp.push(Ev::Req("/1".into())); let body: Vec<u8> = b"abcdefgh"[..k as usize].to_vec(); bytes.extend_from_slice(&body); exp.push(Ev::Body(body)); }
            Framing::Chunked => { exp.push(Ev::Req("/1".into())); bytes.extend_from_slice(b"2\r\nab\r\n1\r\nc\r\n0\r\n\r\n"); exp.push(Ev::Body(b"abc".to_vec())); }
        }
        if f != Framing::Reject { bytes.extend_from_slice(b"GET /2 HTTP/1.1\r\n\r\n"); exp.push(Ev::Req("/2".into())); }
        // whole, every two-piece cut, byte by byte
        let mut segmentations: Vec<Vec<&[u8]>> = vec![vec![&bytes[..]]];
        for cut in 1..bytes.len() { segmentations.push(vec![&bytes[..cut], &bytes[cut..]]); }
        segmentations.push(bytes.chunks(1).collect());
        for seg in &segmentations {
            n += 1;
            let got = run(seg);
            // after a rejection nothing else may be delivered; before it, nothing at all for these inputs
            if got != exp {
                println!("BOUNDED-FAIL h1_request_framing input={:?} pieces={:?} expected={:?} got={:?}", String::from_utf8_lossy(&bytes), seg.iter().map(|p| p.len()).collect::<Vec<_>>(), exp, got);
                ok = false;
                break 'all;
            }
        }
    } } } }
    if ok { println!("BOUNDED-OK h1_request_framing cases={}", n); }
    ok & chunk_syntax()
}

/// RFC 7230 4.1: chunk-size = 1*HEXDIG [ chunk-ext ] CRLF, chunk-data followed by CRLF; a malformed chunk ends the
/// connection with an error and nothing after it is interpreted as a request
fn chunk_syntax() -> bool {
    let head = b"POST /1 HTTP/1.1\r\nhost: x\r\ntransfer-encoding: chunked\r\n\r\n";
    let next = b"GET /2 HTTP/1.1\r\n\r\n";
    // (chunked body text, Some(decoded) if well-formed else None)
    let bodies: Vec<(&[u8], Option<&[u8]>)> = vec![
        (b"3\r\nabc\r\n0\r\n\r\n", Some(b"abc")), (b"03\r\nabc\r\n0\r\n\r\n", Some(b"abc")), (b"3;x=y\r\nabc\r\n0\r\n\r\n", Some(b"abc")),
        (b"A\r\n0123456789\r\n0\r\n\r\n", Some(b"0123456789")), (b"a\r\n0123456789\r\n0\r\n\r\n", Some(b"0123456789")), (b"0\r\n\r\n", Some(b"")),
        (b"1\r\na\r\n2\r\nbc\r\n0\r\n\r\n", Some(b"abc")),
        (b"3 7\r\nabc\r\n0\r\n\r\n", None), (b"g\r\nabc\r\n0\r\n\r\n", None), (b"\r\nabc\r\n0\r\n\r\n", None), (b"-3\r\nabc\r\n0\r\n\r\n", None),
        (b"3\rabc\r\n0\r\n\r\n", None), (b"3\r\nabcX\r\n0\r\n\r\n", None), (b"3\r\nabc\rX0\r\n\r\n", None), (b"0x3\r\nabc\r\n0\r\n\r\n", None),
        (b"FFFFFFFFFFFFFFFFF\r\nabc\r\n0\r\n\r\n", None),
    ];
    let mut n = 0usize;
    for (body, decoded) in &bodies {
        let mut bytes = head.to_vec();
        bytes.extend_from_slice(body);
        bytes.extend_from_slice(next);
        let mut segmentations: Vec<Vec<&[u8]>> = vec![vec![&bytes[..]]];
        for cut in 1..bytes.len() { segmentations.push(vec![&bytes[..cut], &bytes[cut..]]); }
        segmentations.push(bytes.chunks(1).collect());
        for seg in &segmentations {
            n += 1;
            let got = run(seg);
            let good = match decoded {
                Some(d) => got == vec![Ev::Req("/1".into()), Ev::Body(d.to_vec()), Ev::Req("/2".into())],
                None => got.first() == Some(&Ev::Req("/1".into())) && got.last() == Some(&Ev::Reject) && !got.contains(&Ev::Req("/2".into()))
                    && got.iter().all(|e| match e { Ev::Body(b) => b"abc".starts_with(&b[..]), _ => true }),
            };
            if !good {
                println!("BOUNDED-FAIL h1_chunk_syntax input={:?} pieces={:?} expected={} got={:?}", String::from_utf8_lossy(body), seg.iter().map(|p| p.len()).collect::<Vec<_>>(),
                    match decoded { Some(d) => format!("request /1 with body {:?}, then request /2", String::from_utf8_lossy(d)), None => "request /1, then an error and nothing else".to_owned() }, got);
                return false;
            }
        }
    }
    println!("BOUNDED-OK h1_chunk_syntax cases={}", n);
    true
}
