//! BOUNDED stand-in for the end-to-end part of C01 that no contract composes (httparse + set_headers + Request::decode +
//! PayloadDecoder + Codec::decode together, and independence of TCP segmentation): the REAL actix-http h1::Codec from the
//! working tree decodes generated request streams, whole and cut in two at every position and byte by byte, and is
//! compared with the RFC 7230 3.3.3 framing rules (the same oracle the deductive unit h1_framing proves set_headers /
//! Request::decode against).  Labelled bounded; never counted as proved.
use actix_codec::Decoder;
use actix_http::h1::{Codec, Message};
use bytes::BytesMut;

#[derive(Debug, Clone, PartialEq)]
enum Ev { Req(String), Body(Vec<u8>), Reject }

#[derive(Clone, Copy, Debug, PartialEq)]
enum Framing { Reject, NoBody, Length(u64), Chunked }

/// RFC 7230 3.3.3 (+ RFC 1945 7.2.2 for HTTP/1.0 POST), over the framing headers of one request head
fn framing(http11: bool, post: bool, cls: &[&str], tes: &[&str]) -> Framing {
    // Content-Length: repeated -> reject; value must be 1*DIGIT that fits u64
    let mut cl: Option<u64> = None;
    if cls.len() > 1 { return Framing::Reject; }
    if let Some(v) = cls.first() {
        let t = v.trim();
        if t.is_empty() || !t.bytes().all(|b| b.is_ascii_digit()) { return Framing::Reject; }
        match t.parse::<u64>() { Ok(n) => cl = Some(n), Err(_) => return Framing::Reject }
    }
    let mut chunked = false;
    if !tes.is_empty() {
        // Transfer-Encoding: only HTTP/1.1, only a single `chunked`, never together with Content-Length
        if !http11 || tes.len() > 1 || cl.is_some() { return Framing::Reject; }
        if tes[0].trim().eq_ignore_ascii_case("chunked") { chunked = true; } else { return Framing::Reject; }
    }
    if !http11 && post && !chunked && cl.is_none() { return Framing::Reject; }
    if chunked { Framing::Chunked } else { match cl { Some(n) if n > 0 => Framing::Length(n), _ => Framing::NoBody } }
}

fn run(pieces: &[&[u8]]) -> Vec<Ev> {
    let mut codec = Codec::default();
    let mut buf = BytesMut::new();
    let mut evs: Vec<Ev> = Vec::new();
    'outer: for p in pieces {
        buf.extend_from_slice(p);
        loop {
            match codec.decode(&mut buf) {
                Ok(Some(Message::Item(req))) => evs.push(Ev::Req(req.path().to_owned())),
                Ok(Some(Message::Chunk(Some(b)))) => {
                    if let Some(Ev::Body(v)) = evs.last_mut() { v.extend_from_slice(&b); } else { evs.push(Ev::Body(b.to_vec())); }
                }
                Ok(Some(Message::Chunk(None))) => { if !matches!(evs.last(), Some(Ev::Body(_))) { evs.push(Ev::Body(vec![])); } }
                Ok(None) => break,
                Err(_) => { evs.push(Ev::Reject); break 'outer; }
            }
        }
    }
    evs
}

fn main() {
    // Codec::default() starts the date service, which needs a local task set
    let ok = actix_rt::System::new().block_on(async { let a = checks(); let b = server::check().await; let c = h2srv::check().await; a & b & c });
    // each deadline scenario gets a runtime of its own: virtual time starts at zero together with the service's clock
    let ok = ok & timers::check();
    std::process::exit(if ok { 0 } else { 1 });
}

fn checks() -> bool {
    let cl_sets: Vec<Vec<&str>> = vec![vec![], vec!["3"], vec!["03"], vec!["0"], vec!["+3"], vec!["3 "], vec!["abc"], vec!["3", "3"], vec!["3", "4"], vec!["-1"], vec!["3.0"]];
    let te_sets: Vec<Vec<&str>> = vec![vec![], vec!["chunked"], vec!["Chunked"], vec!["identity"], vec!["gzip"], vec!["gzip, chunked"], vec!["chunked", "chunked"], vec!["chunked", "identity"]];
    let mut n = 0usize;
    let mut ok = true;
    'all: for http11 in [true, false] { for post in [true, false] { for cls in &cl_sets { for tes in &te_sets {
        let mut head = format!("{} /1 HTTP/1.{}\r\nhost: x\r\n", if post { "POST" } else { "GET" }, if http11 { 1 } else { 0 });
        for c in cls { head.push_str(&format!("content-length: {}\r\n", c)); }
        for t in tes { head.push_str(&format!("transfer-encoding: {}\r\n", t)); }
        head.push_str("\r\n");
        let f = framing(http11, post, cls, tes);
        let mut bytes = head.into_bytes();
        let mut exp: Vec<Ev> = Vec::new();
        match f {
            Framing::Reject => exp.push(Ev::Reject),
            Framing::NoBody => { exp.push(Ev::Req("/1".into())); }
            Framing::Length(k) => { exp.push(Ev::Req("/1".into())); let body: Vec<u8> = b"abcdefgh"[..k as usize].to_vec(); bytes.extend_from_slice(&body); exp.push(Ev::Body(body)); }
            Framing::Chunked => { exp.push(Ev::Req("/1".into())); bytes.extend_from_slice(b"2\r\nab\r\n1\r\nc\r\n0\r\n\r\n"); exp.push(Ev::Body(b"abc".to_vec())); }
        }
        if f != Framing::Reject { bytes.extend_from_slice(b"GET /2 HTTP/1.1\r\n\r\n"); exp.push(Ev::Req("/2".into())); }
        // whole, every two-piece cut, byte by byte
        let mut segmentations: Vec<Vec<&[u8]>> = vec![vec![&bytes[..]]];
        for cut in 1..bytes.len() { segmentations.push(vec![&bytes[..cut], &bytes[cut..]]); }
        segmentations.push(bytes.chunks(1).collect());
        for seg in &segmentations {
            n += 1;
            let got = run(seg);
            // after a rejection nothing else may be delivered; before it, nothing at all for these inputs
            if got != exp {
                println!("BOUNDED-FAIL h1_request_framing input={:?} pieces={:?} expected={:?} got={:?}", String::from_utf8_lossy(&bytes), seg.iter().map(|p| p.len()).collect::<Vec<_>>(), exp, got);
                ok = false;
                break 'all;
            }
        }
    } } } }
    if ok { println!("BOUNDED-OK h1_request_framing cases={}", n); }
    ok & chunk_syntax() & ws::check() & body_channel::check()
}


/// RFC 7230 4.1: chunk-size = 1*HEXDIG [ chunk-ext ] CRLF, chunk-data followed by CRLF; a malformed chunk ends the
/// connection with an error and nothing after it is interpreted as a request
fn chunk_syntax() -> bool {
    let head = b"POST /1 HTTP/1.1\r\nhost: x\r\ntransfer-encoding: chunked\r\n\r\n";
    let next = b"GET /2 HTTP/1.1\r\n\r\n";
    // (chunked body text, Some(decoded) if well-formed else None)
    let bodies: Vec<(&[u8], Option<&[u8]>)> = vec![
        (b"3\r\nabc\r\n0\r\n\r\n", Some(b"abc")), (b"03\r\nabc\r\n0\r\n\r\n", Some(b"abc")), (b"3;x=y\r\nabc\r\n0\r\n\r\n", Some(b"abc")),
        (b"A\r\n0123456789\r\n0\r\n\r\n", Some(b"0123456789")), (b"a\r\n0123456789\r\n0\r\n\r\n", Some(b"0123456789")), (b"0\r\n\r\n", Some(b"")),
        (b"1\r\na\r\n2\r\nbc\r\n0\r\n\r\n", Some(b"abc")),
        (b"3 7\r\nabc\r\n0\r\n\r\n", None), (b"g\r\nabc\r\n0\r\n\r\n", None), (b"\r\nabc\r\n0\r\n\r\n", None), (b"-3\r\nabc\r\n0\r\n\r\n", None),
        (b"3\rabc\r\n0\r\n\r\n", None), (b"3\r\nabcX\r\n0\r\n\r\n", None), (b"3\r\nabc\rX0\r\n\r\n", None), (b"0x3\r\nabc\r\n0\r\n\r\n", None),
        (b"FFFFFFFFFFFFFFFFF\r\nabc\r\n0\r\n\r\n", None),
    ];
    let mut n = 0usize;
    for (body, decoded) in &bodies {
        let mut bytes = head.to_vec();
        bytes.extend_from_slice(body);
        bytes.extend_from_slice(next);
        let mut segmentations: Vec<Vec<&[u8]>> = vec![vec![&bytes[..]]];
        for cut in 1..bytes.len() { segmentations.push(vec![&bytes[..cut], &bytes[cut..]]); }
        segmentations.push(bytes.chunks(1).collect());
        for seg in &segmentations {
            n += 1;
            let got = run(seg);
            let good = match decoded {
                Some(d) => got == vec![Ev::Req("/1".into()), Ev::Body(d.to_vec()), Ev::Req("/2".into())],
                None => got.first() == Some(&Ev::Req("/1".into())) && got.last() == Some(&Ev::Reject) && !got.contains(&Ev::Req("/2".into()))
                    && got.iter().all(|e| match e { Ev::Body(b) => b"abc".starts_with(&b[..]), _ => true }),
            };
            if !good {
                println!("BOUNDED-FAIL h1_chunk_syntax input={:?} pieces={:?} expected={} got={:?}", String::from_utf8_lossy(body), seg.iter().map(|p| p.len()).collect::<Vec<_>>(),
                    match decoded { Some(d) => format!("request /1 with body {:?}, then request /2", String::from_utf8_lossy(d)), None => "request /1, then an error and nothing else".to_owned() }, got);
                return false;
            }
        }
    }
    println!("BOUNDED-OK h1_chunk_syntax cases={}", n);
    true
}

// ---------------------------------------------------------------- WebSocket codec round trip across roles (C14)
mod ws {
    use actix_codec::{Decoder, Encoder};
    use actix_http::ws::{Codec, Frame, Item, Message};
    use bytes::{Bytes, BytesMut};

    fn payload(n: usize) -> Vec<u8> { (0..n).map(|i| (i * 31 % 251) as u8).collect() }
    fn text(n: usize) -> String { (0..n).map(|i| (b'a' + (i % 26) as u8) as char).collect() }

    fn expect_frame(m: &Message) -> Frame {
        match m {
            Message::Text(t) => Frame::Text(Bytes::copy_from_slice(t.as_bytes())),
            Message::Binary(b) => Frame::Binary(b.clone()),
            Message::Ping(b) => Frame::Ping(b.clone()),
            Message::Pong(b) => Frame::Pong(b.clone()),
            Message::Close(r) => Frame::Close(r.clone()),
            Message::Continuation(Item::FirstText(b)) => Frame::Continuation(Item::FirstText(b.clone())),
            Message::Continuation(Item::FirstBinary(b)) => Frame::Continuation(Item::FirstBinary(b.clone())),
            Message::Continuation(Item::Continue(b)) => Frame::Continuation(Item::Continue(b.clone())),
            Message::Continuation(Item::Last(b)) => Frame::Continuation(Item::Last(b.clone())),
            Message::Nop => unreachable!(),
        }
    }
    fn clone_msg(m: &Message) -> Message {
        match m {
            Message::Text(t) => Message::Text(t.clone()), Message::Binary(b) => Message::Binary(b.clone()), Message::Ping(b) => Message::Ping(b.clone()),
            Message::Pong(b) => Message::Pong(b.clone()), Message::Close(r) => Message::Close(r.clone()), Message::Nop => Message::Nop,
            Message::Continuation(Item::FirstText(b)) => Message::Continuation(Item::FirstText(b.clone())),
            Message::Continuation(Item::FirstBinary(b)) => Message::Continuation(Item::FirstBinary(b.clone())),
            Message::Continuation(Item::Continue(b)) => Message::Continuation(Item::Continue(b.clone())),
            Message::Continuation(Item::Last(b)) => Message::Continuation(Item::Last(b.clone())),
        }
    }

    pub fn check() -> bool {
        let sizes = [0usize, 1, 2, 3, 4, 5, 7, 8, 15, 16, 17, 31, 33, 125, 126, 127, 1000, 65535, 65536, 70000];
        // message sequences: singles, and a fragmented message with a ping in between
        let mut seqs: Vec<Vec<Message>> = Vec::new();
        for n in sizes {
            seqs.push(vec![Message::Text(text(n).into())]);
            seqs.push(vec![Message::Binary(Bytes::from(payload(n)))]);
            if n <= 125 { seqs.push(vec![Message::Ping(Bytes::from(payload(n)))]); seqs.push(vec![Message::Pong(Bytes::from(payload(n)))]); }
            seqs.push(vec![Message::Continuation(Item::FirstBinary(Bytes::from(payload(n)))), Message::Ping(Bytes::from_static(b"p")), Message::Continuation(Item::Continue(Bytes::from(payload(3)))), Message::Continuation(Item::Last(Bytes::from(payload(n))))]);
        }
        seqs.push(vec![Message::Close(None)]);
        seqs.push(vec![Message::Close(Some(actix_http::ws::CloseCode::Normal.into()))]);
        let mut n = 0usize;
        for seq in &seqs {
            for client_sends in [true, false] {
                let mut enc = if client_sends { Codec::new().client_mode() } else { Codec::new() }.max_size(100_000);
                let mut dec = if client_sends { Codec::new() } else { Codec::new().client_mode() }.max_size(100_000);
                let mut wire = BytesMut::new();
                for m in seq { if enc.encode(clone_msg(m), &mut wire).is_err() { println!("BOUNDED-FAIL ws_round_trip input={:?} expected=encodes got=error", m); return false; } }
                let expect: Vec<Frame> = seq.iter().map(expect_frame).collect();
                let total = wire.len();
                let mut cuts: Vec<usize> = if total <= 300 { (0..=total).collect() } else { vec![0, 1, 2, 3, 5, 9, 10, 11, 13, 14, 15, total / 2, total - 1, total] };
                cuts.dedup();
                for cut in cuts {
                    n += 1;
                    let mut d = if client_sends { Codec::new() } else { Codec::new().client_mode() }.max_size(100_000);
                    std::mem::swap(&mut d, &mut dec);
                    let mut buf = BytesMut::new();
                    let mut got: Vec<Frame> = Vec::new();
                    let mut bad = None;
                    for piece in [&wire[..cut], &wire[cut..]] {
                        buf.extend_from_slice(piece);
                        loop { match dec.decode(&mut buf) { Ok(Some(f)) => got.push(f), Ok(None) => break, Err(e) => { bad = Some(format!("{:?}", e)); break; } } }
                        if bad.is_some() { break; }
                    }
                    if bad.is_some() || got != expect || !buf.is_empty() {
                        println!("BOUNDED-FAIL ws_round_trip input=({} sends {} message(s), first of {} payload bytes, wire cut at {} of {}) expected=the same messages got={}", if client_sends { "client" } else { "server" }, seq.len(),
                            match &seq[0] { Message::Text(t) => t.len(), Message::Binary(b) | Message::Ping(b) | Message::Pong(b) => b.len(), _ => 0 }, cut, total, bad.unwrap_or_else(|| format!("{} frames, {} bytes left", got.len(), buf.len())));
                        return false;
                    }
                }
                // wrong masking for the role: what a client sent is refused by a client-mode decoder and vice versa
                n += 1;
                let mut wrong = if client_sends { Codec::new().client_mode() } else { Codec::new() }.max_size(100_000);
                let mut buf = BytesMut::from(&wire[..]);
                if !matches!(wrong.decode(&mut buf), Err(_)) { println!("BOUNDED-FAIL ws_round_trip input=(frame with the wrong masking for the receiving role) expected=a protocol error got=accepted"); return false; }
            }
        }
        // a complete frame larger than max_size is refused and never delivered
        n += 1;
        let mut enc = Codec::new().client_mode();
        let mut wire = BytesMut::new();
        let _ = enc.encode(Message::Binary(Bytes::from(payload(200))), &mut wire);
        let mut small = Codec::new().max_size(100);
        if !matches!(small.decode(&mut wire), Err(_)) { println!("BOUNDED-FAIL ws_round_trip input=(200 byte frame, max_size 100) expected=Overflow got=delivered"); return false; }
        println!("BOUNDED-OK ws_round_trip cases={}", n);
        true
    }
}

// ---------------------------------------------------------------- request-body channel against a reference queue (C07)
mod body_channel {
    use std::{pin::Pin, task::{Context, Poll}};
    use actix_http::{error::PayloadError, h1::Payload};
    use bytes::Bytes;

    #[derive(Clone, Copy, Debug)]
    enum Op { Feed(u8), Eof, Error, DropSender, Read }

    #[derive(Debug, PartialEq)]
    enum R { Data(Vec<u8>), End, Incomplete, OtherError, Pending }

    pub fn check() -> bool {
        let ops = [Op::Feed(1), Op::Feed(2), Op::Eof, Op::Error, Op::DropSender, Op::Read];
        let mut seqs: Vec<Vec<Op>> = vec![vec![]];
        let mut layer: Vec<Vec<Op>> = vec![vec![]];
        let depth = if std::env::var("VERIF_HARNESS_TIER").map(|v| v == "thorough").unwrap_or(false) { 7 } else { 6 };
        for _ in 0..depth { let mut next = Vec::new(); for s in &layer { for o in &ops { let mut t = s.clone(); t.push(*o); next.push(t); } } seqs.extend(next.iter().cloned()); layer = next; }
        let waker = futures_noop();
        let mut n = 0usize;
        for seq in &seqs {
            n += 1;
            let (tx, mut rx) = Payload::create(false);
            let mut tx = Some(tx);
            // reference: queued chunks, then a recorded ending (the first of eof / error / sender drop wins; an error set after data is reported after the data)
            let mut queue: std::collections::VecDeque<Vec<u8>> = Default::default();
            let mut ending: Option<R> = None;
            let mut error_reported = false;
            let mut cx = Context::from_waker(&waker);
            for (i, op) in seq.iter().enumerate() {
                match *op {
                    Op::Feed(k) => { if let Some(t) = tx.as_mut() { if ending.is_none() { t.feed_data(Bytes::from(vec![k; k as usize])); queue.push_back(vec![k; k as usize]); } } }
                    Op::Eof => { if let Some(t) = tx.as_mut() { if ending.is_none() { t.feed_eof(); ending = Some(R::End); } } }
                    Op::Error => { if let Some(t) = tx.as_mut() { if ending.is_none() { t.set_error(PayloadError::Overflow); ending = Some(R::OtherError); } } }
                    Op::DropSender => { if tx.take().is_some() && ending.is_none() { ending = Some(R::Incomplete); } }
                    Op::Read => {
                        let got = match Pin::new(&mut rx).poll_next(&mut cx) {
                            Poll::Ready(Some(Ok(b))) => R::Data(b.to_vec()),
                            Poll::Ready(Some(Err(PayloadError::Incomplete(_)))) => R::Incomplete,
                            Poll::Ready(Some(Err(_))) => R::OtherError,
                            Poll::Ready(None) => R::End,
                            Poll::Pending => R::Pending,
                        };
                        let exp = if let Some(d) = queue.pop_front() { R::Data(d) } else {
                            match ending.take() { Some(R::End) => { ending = Some(R::End); R::End } Some(e) => { ending = Some(R::End); e } None => R::Pending }
                        };
                        // what a poll returns AFTER an error ending has been reported is not part of the property: stop looking
                        if error_reported { continue; }
                        if matches!(exp, R::Incomplete | R::OtherError) { error_reported = true; }
                        if got != exp {
                            println!("BOUNDED-FAIL body_channel input={:?} expected=read #{} gives {:?} got={:?}", seq, i, exp, got);
                            return false;
                        }
                    }
                }
            }
        }
        println!("BOUNDED-OK body_channel cases={}", n);
        true
    }
    fn futures_noop() -> std::task::Waker {
        use std::task::{RawWaker, RawWakerVTable, Waker};
        fn no(_: *const ()) {}
        fn clone(_: *const ()) -> RawWaker { RawWaker::new(std::ptr::null(), &VT) }
        static VT: RawWakerVTable = RawWakerVTable::new(clone, no, no, no);
        unsafe { Waker::from_raw(RawWaker::new(std::ptr::null(), &VT)) }
    }
    use futures_core::Stream;
}

// ---------------------------------------------------------------- the HTTP/1 server end to end over an in-memory connection (C02, C03, C05)
mod server {
    use std::time::Duration;
    use actix_http::{body::{BodyStream, BoxBody}, HttpService, Request, Response, StatusCode};
    use actix_service::{fn_service, ServiceFactory, Service};
    use bytes::Bytes;
    use tokio::io::{AsyncReadExt, AsyncWriteExt};

    fn data(n: usize) -> Vec<u8> { (0..n).map(|i| b"0123456789"[i % 10]).collect() }

    /// what the handler answers for a path (the reference the wire is compared with): (status, body, connection: close set by the handler)
    fn answer(path: &str) -> (u16, Vec<u8>, bool) {
        let p: Vec<&str> = path.trim_start_matches('/').split('/').collect();
        match p[0] {
            "s" => (200, data(p[1].parse().unwrap()), false),
            "c" | "e" => (200, data(p[1].parse().unwrap()), false),
            "n" => (204, vec![], false),
            "close" => (200, b"bye".to_vec(), true),
            _ => (404, vec![], false),
        }
    }

    async fn handle(req: Request) -> Result<Response<BoxBody>, std::convert::Infallible> {
        let path = req.path().to_owned();
        let p: Vec<&str> = path.trim_start_matches('/').split('/').collect();
        Ok(match p[0] {
            "s" => Response::ok().set_body(Bytes::from(data(p[1].parse().unwrap()))).map_into_boxed_body(),
            "c" | "e" => {
                let n: usize = p[1].parse().unwrap();
                let k: usize = p[2].parse().unwrap();
                let pieces: Vec<Result<Bytes, std::io::Error>> = data(n).chunks(k.max(1)).map(|c| Ok(Bytes::copy_from_slice(c))).collect();
                if p[0] == "e" {
                    // a hand-written body type that yields an EMPTY chunk in the middle (BodyStream would filter it out)
                    let mut v: Vec<Bytes> = pieces.into_iter().map(|r| r.unwrap()).collect();
                    let mid = v.len() / 2; v.insert(mid, Bytes::new());
                    return Ok(Response::ok().set_body(RawChunks { items: v.into() }).map_into_boxed_body());
                }
                Response::ok().set_body(BodyStream::new(futures_util::stream::iter(pieces))).map_into_boxed_body()
            }
            "n" => Response::new(StatusCode::NO_CONTENT).map_into_boxed_body(),
            "close" => { let mut r = Response::ok().set_body(Bytes::from_static(b"bye")).map_into_boxed_body(); r.head_mut().set_connection_type(actix_http::ConnectionType::Close); r }
            _ => Response::new(StatusCode::NOT_FOUND).map_into_boxed_body(),
        })
    }

    struct RawChunks { items: std::collections::VecDeque<Bytes> }
    impl actix_http::body::MessageBody for RawChunks {
        type Error = std::io::Error;
        fn size(&self) -> actix_http::body::BodySize { actix_http::body::BodySize::Stream }
        fn poll_next(mut self: std::pin::Pin<&mut Self>, _: &mut std::task::Context<'_>) -> std::task::Poll<Option<Result<Bytes, Self::Error>>> {
            std::task::Poll::Ready(self.items.pop_front().map(Ok))
        }
    }

    #[derive(Debug, PartialEq)]
    struct Resp { status: u16, body: Vec<u8>, close: bool }

    /// minimal HTTP/1.1 response-stream parser (what a conforming client does); Err = not a well-formed sequence of messages
    fn parse_responses(mut wire: &[u8], heads: &[bool]) -> Result<Vec<Resp>, String> {
        let mut out = Vec::new();
        while !wire.is_empty() {
            let end = wire.windows(4).position(|w| w == b"\r\n\r\n").ok_or_else(|| format!("incomplete head after {} responses", out.len()))?;
            let head = std::str::from_utf8(&wire[..end]).map_err(|_| "head is not text".to_owned())?;
            wire = &wire[end + 4..];
            let mut lines = head.split("\r\n");
            let st = lines.next().unwrap();
            if !(st.starts_with("HTTP/1.1 ") || st.starts_with("HTTP/1.0 ")) { return Err(format!("bad status line {:?}", st)); }
            let status: u16 = st[9..12].parse().map_err(|_| format!("bad status line {:?}", st))?;
            let mut cl: Option<usize> = None; let mut chunked = false; let mut close = st.starts_with("HTTP/1.0 ");     // HTTP/1.0: close unless keep-alive is negotiated
            for l in lines {
                let (k, v) = l.split_once(':').ok_or_else(|| format!("bad header line {:?}", l))?;
                let (k, v) = (k.trim().to_ascii_lowercase(), v.trim().to_ascii_lowercase());
                if k == "content-length" { if cl.is_some() { return Err("two content-length headers".into()); } cl = Some(v.parse().map_err(|_| "bad content-length".to_owned())?); }
                if k == "transfer-encoding" { chunked = v == "chunked"; }
                if k == "connection" && v == "close" { close = true; }
            }
            let is_head = heads.get(out.len()).copied().unwrap_or(false);
            let mut body = Vec::new();
            if is_head || status / 100 == 1 || status == 204 || status == 304 {
            } else if chunked {
                if cl.is_some() { return Err("content-length together with chunked".into()); }
                loop {
                    let e = wire.windows(2).position(|w| w == b"\r\n").ok_or("incomplete chunk size line")?;
                    let sz = usize::from_str_radix(std::str::from_utf8(&wire[..e]).map_err(|_| "bad chunk size")?.trim(), 16).map_err(|_| "bad chunk size".to_owned())?;
                    wire = &wire[e + 2..];
                    if sz == 0 { if !wire.starts_with(b"\r\n") { return Err("missing CRLF after last chunk".into()); } wire = &wire[2..]; break; }
                    if wire.len() < sz + 2 || &wire[sz..sz + 2] != b"\r\n" { return Err("chunk data cut short".into()); }
                    body.extend_from_slice(&wire[..sz]); wire = &wire[sz + 2..];
                }
            } else if let Some(n) = cl {
                if wire.len() < n { return Err(format!("body cut short: {} of {} bytes", wire.len(), n)); }
                body.extend_from_slice(&wire[..n]); wire = &wire[n..];
            } else { body.extend_from_slice(wire); wire = &[]; close = true; }
            out.push(Resp { status, body, close });
        }
        Ok(out)
    }

    /// one connection: the request bytes in the given pieces, then the client half-closes; returns everything the server wrote
    async fn exchange(pieces: &[&[u8]]) -> Result<Vec<u8>, String> {
        let (mut client, server_io) = tokio::io::duplex(1 << 20);
        let factory = HttpService::build().client_request_timeout(Duration::from_secs(30)).h1(fn_service(handle));
        let svc = factory.new_service(()).await.map_err(|_| "service init".to_owned())?;
        let conn = actix_rt::spawn(async move { let _ = svc.call((server_io, None)).await; });
        for p in pieces { if client.write_all(p).await.is_err() { break; } client.flush().await.ok(); tokio::task::yield_now().await; }     // the server may have closed already
        client.shutdown().await.ok();
        let mut out = Vec::new();
        match actix_rt::time::timeout(Duration::from_secs(20), client.read_to_end(&mut out)).await {
            Ok(_) => {}
            Err(_) => return Err("the connection did not finish within 20 s (stall)".into()),
        }
        let _ = conn.await;
        Ok(out)
    }

    pub async fn check() -> bool {
        // (request text, path, is HEAD, the request asks for / causes the connection to close)
        let reqs: Vec<(String, &str, bool, bool)> = vec![
            ("GET /s/0 HTTP/1.1\r\n\r\n".into(), "/s/0", false, false), ("GET /s/5 HTTP/1.1\r\n\r\n".into(), "/s/5", false, false), ("HEAD /s/5 HTTP/1.1\r\n\r\n".into(), "/s/5", true, false),
            ("GET /c/10/3 HTTP/1.1\r\n\r\n".into(), "/c/10/3", false, false), ("GET /e/10/3 HTTP/1.1\r\n\r\n".into(), "/e/10/3", false, false), ("HEAD /c/10/3 HTTP/1.1\r\n\r\n".into(), "/c/10/3", true, false),
            ("GET /n HTTP/1.1\r\n\r\n".into(), "/n", false, false),

            ("GET /s/2 HTTP/1.1\r\nconnection: close\r\n\r\n".into(), "/s/2", false, true), ("GET /close HTTP/1.1\r\n\r\n".into(), "/close", false, true), ("GET /s/4 HTTP/1.0\r\n\r\n".into(), "/s/4", false, true),
        ];
        let mut seqs: Vec<Vec<usize>> = Vec::new();
        // pipelined sequences mix neither HEAD with other methods nor HTTP/1.0 with 1.1: the response framing of a pipelined
        // request depending on a LATER request's method / version is the listed finding C02
        // (codec_context_belongs_to_the_response_in_flight); those mixes are left to that finding's own demonstration
        let plain = |i: &usize| !reqs[*i].2 && !reqs[*i].0.contains("HTTP/1.0");
        let open: Vec<usize> = (0..reqs.len()).filter(|i| !reqs[*i].3 && plain(i)).collect();
        let lasts: Vec<usize> = (0..reqs.len()).filter(|i| plain(i)).collect();
        for a in 0..reqs.len() { seqs.push(vec![a]); }
        for a in &open { for b in &lasts { seqs.push(vec![*a, *b]); } }
        for a in &open { for b in &open { for c in &lasts { seqs.push(vec![*a, *b, *c]); } } }
        let mut n = 0usize;
        for seq in &seqs {
            let mut bytes = Vec::new();
            for i in seq { bytes.extend_from_slice(reqs[*i].0.as_bytes()); }
            let heads: Vec<bool> = seq.iter().map(|i| reqs[*i].2).collect();
            let expected: Vec<(u16, Vec<u8>)> = seq.iter().map(|i| { let (st, b, _) = answer(reqs[*i].1); (st, if reqs[*i].2 { vec![] } else { b }) }).collect();
            let last_closes = reqs[*seq.last().unwrap()].3;
            let mut segs: Vec<Vec<&[u8]>> = vec![vec![&bytes[..]]];
            let step = if seq.len() == 1 { 1 } else { 7 };
            let mut cut = 1; while cut < bytes.len() { segs.push(vec![&bytes[..cut], &bytes[cut..]]); cut += step; }
            for seg in &segs {
                n += 1;
                let sizes: Vec<usize> = seg.iter().map(|p| p.len()).collect();
                let wire = match exchange(seg).await { Ok(w) => w, Err(e) => { println!("BOUNDED-FAIL h1_server input={:?} pieces={:?} expected=the responses and a closed connection got={}", String::from_utf8_lossy(&bytes), sizes, e); return false; } };
                let got = match parse_responses(&wire, &heads) { Ok(g) => g, Err(e) => { println!("BOUNDED-FAIL h1_server input={:?} pieces={:?} expected=well-formed responses got={} in {:?}", String::from_utf8_lossy(&bytes), sizes, e, String::from_utf8_lossy(&wire)); return false; } };
                let got_sb: Vec<(u16, Vec<u8>)> = got.iter().map(|r| (r.status, r.body.clone())).collect();
                if got_sb != expected || (last_closes && !got.last().map(|r| r.close).unwrap_or(false)) {
                    println!("BOUNDED-FAIL h1_server input={:?} pieces={:?} expected={} responses {:?}{} got={:?}", String::from_utf8_lossy(&bytes), sizes, expected.len(), expected.iter().map(|e| (e.0, e.1.len())).collect::<Vec<_>>(), if last_closes { ", the last announcing close" } else { "" }, got.iter().map(|r| (r.status, r.body.len(), r.close)).collect::<Vec<_>>());
                    return false;
                }
            }
        }
        // a malformed request is answered with 400 and nothing after it is interpreted as a request; an oversized head with 431
        for (bad, status) in [("GET /s/1 HTTP/1.1\r\ncontent-length: abc\r\n\r\n".to_owned(), 400u16), ("GET /s/1 HTTP/1.1\r\ncontent-length: 1\r\ntransfer-encoding: chunked\r\n\r\n".to_owned(), 400),
                              (format!("GET /s/1 HTTP/1.1\r\nx: {}", "a".repeat(1_000_000)), 431)] {     // far beyond anything the read buffer can hold at once
            for prefix in ["", "GET /s/5 HTTP/1.1\r\n\r\n"] {
                n += 1;
                let mut bytes = prefix.as_bytes().to_vec(); bytes.extend_from_slice(bad.as_bytes()); bytes.extend_from_slice(b"GET /s/7 HTTP/1.1\r\n\r\n");
                let wire = match exchange(&[&bytes[..]]).await { Ok(w) => w, Err(e) => { println!("BOUNDED-FAIL h1_server input=(malformed request, {} bytes) expected={} and close got={}", bytes.len(), status, e); return false; } };
                let got = match parse_responses(&wire, &[]) { Ok(g) => g, Err(e) => { println!("BOUNDED-FAIL h1_server input=(malformed request, {} bytes) expected=well-formed responses got={}", bytes.len(), e); return false; } };
                let exp_n = if prefix.is_empty() { 1 } else { 2 };
                if got.len() != exp_n || got.last().unwrap().status != status || got.iter().any(|r| r.body == data(7)) {
                    println!("BOUNDED-FAIL h1_server input=({:?}...) expected={} response(s), the last one {} , and nothing for the request after it got={:?}", &String::from_utf8_lossy(&bytes)[..60.min(bytes.len())], exp_n, status, got.iter().map(|r| (r.status, r.body.len())).collect::<Vec<_>>());
                    return false;
                }
            }
        }
        println!("BOUNDED-OK h1_server cases={}", n);
        true
    }
}

// ---------------------------------------------------------------- the HTTP/2 server end to end over an in-memory connection (C08)
mod h2srv {
    use std::time::Duration;
    use actix_http::{body::{BodyStream, BoxBody}, HttpService, Request, Response, StatusCode};
    use actix_service::{fn_service, Service, ServiceFactory};
    use bytes::Bytes;

    fn data(n: usize) -> Vec<u8> { (0..n).map(|i| b"abcdefghij"[(i * 3) % 10]).collect() }

    async fn handle(req: Request) -> Result<Response<BoxBody>, std::convert::Infallible> {
        let path = req.path().to_owned();
        let p: Vec<&str> = path.trim_start_matches('/').split('/').collect();
        Ok(match p[0] {
            "s" => { let mut r = Response::ok().set_body(Bytes::from(data(p[1].parse().unwrap()))).map_into_boxed_body(); r.headers_mut().insert(actix_http::header::CONNECTION, actix_http::header::HeaderValue::from_static("close")); r }
            "c" => {
                let n: usize = p[1].parse().unwrap(); let k: usize = p[2].parse().unwrap();
                let pieces: Vec<Result<Bytes, std::io::Error>> = data(n).chunks(k.max(1)).map(|c| Ok(Bytes::copy_from_slice(c))).collect();
                Response::ok().set_body(BodyStream::new(futures_util::stream::iter(pieces))).map_into_boxed_body()
            }
            // a bodiless status whose handler nevertheless set a Content-Length and a streaming body
            "n" => { let mut r = Response::new(StatusCode::NO_CONTENT).set_body(BodyStream::new(futures_util::stream::iter(vec![Ok::<_, std::io::Error>(Bytes::from_static(b"x"))]))).map_into_boxed_body(); r.headers_mut().insert(actix_http::header::CONTENT_LENGTH, actix_http::header::HeaderValue::from_static("1")); r }
            _ => Response::new(StatusCode::NOT_FOUND).map_into_boxed_body(),
        })
    }

    struct Got { status: u16, content_length: Option<usize>, hop_headers: bool, body: Vec<u8> }

    async fn exchange(window: u32, reqs: &[(&str, &str)]) -> Result<Vec<Got>, String> {
        let (client_io, server_io) = tokio::io::duplex(1 << 20);
        let factory = HttpService::build().h2(fn_service(handle));
        let svc = factory.new_service(()).await.map_err(|_| "service init".to_owned())?;
        actix_rt::spawn(async move { let _ = svc.call((server_io, None)).await; });
        let (mut send, conn) = h2::client::Builder::new().initial_window_size(window).initial_connection_window_size(window.max(65_535)).handshake::<_, Bytes>(client_io).await.map_err(|e| format!("handshake: {}", e))?;
        actix_rt::spawn(async move { let _ = conn.await; });
        // all requests are started before any response is read: streams are concurrent
        let mut pending = Vec::new();
        for (method, path) in reqs {
            let req = http::Request::builder().method(*method).uri(format!("http://mem.test{}", path)).body(()).unwrap();
            send = send.ready().await.map_err(|e| format!("ready: {}", e))?;
            let (fut, _) = send.send_request(req, true).map_err(|e| format!("send: {}", e))?;
            pending.push(fut);
        }
        let mut out = Vec::new();
        for fut in pending {
            let resp = fut.await.map_err(|e| format!("response: {}", e))?;
            let (parts, mut body) = resp.into_parts();
            let mut bytes = Vec::new();
            while let Some(chunk) = body.data().await {
                let c = chunk.map_err(|e| format!("data: {}", e))?;
                bytes.extend_from_slice(&c);
                // hand the window back a little at a time
                let mut left = c.len();
                while left > 0 { let k = left.min(3); let _ = body.flow_control().release_capacity(k); left -= k; actix_rt::task::yield_now().await; }
            }
            let h = &parts.headers;
            out.push(Got { status: parts.status.as_u16(), content_length: h.get("content-length").map(|v| v.to_str().unwrap().parse().unwrap()),
                hop_headers: h.contains_key("connection") || h.contains_key("transfer-encoding") || h.contains_key("keep-alive") || h.contains_key("upgrade"), body: bytes });
        }
        Ok(out)
    }

    pub async fn check() -> bool {
        let kinds: Vec<(&str, String, u16, Vec<u8>)> = vec![
            ("GET", "/s/0".into(), 200, data(0)), ("GET", "/s/5".into(), 200, data(5)), ("GET", "/s/40000".into(), 200, data(40000)), ("HEAD", "/s/5".into(), 200, vec![]),
            ("GET", "/c/10/3".into(), 200, data(10)), ("GET", "/c/20000/4096".into(), 200, data(20000)), ("HEAD", "/c/10/3".into(), 200, vec![]), ("GET", "/n".into(), 204, vec![]),
        ];
        let mut n = 0usize;
        for window in [1u32, 7, 100, 65_535] {
            let mut sets: Vec<Vec<usize>> = (0..kinds.len()).map(|i| vec![i]).collect();
            for a in 0..kinds.len() { for b in 0..kinds.len() { sets.push(vec![a, b]); } }
            for set in &sets {
                if window == 1 && set.iter().any(|i| kinds[*i].3.len() > 1000) { continue; }      // byte-sized windows only for the small bodies
                n += 1;
                let reqs: Vec<(&str, &str)> = set.iter().map(|i| (kinds[*i].0, kinds[*i].1.as_str())).collect();
                let got = match actix_rt::time::timeout(Duration::from_secs(30), exchange(window, &reqs)).await {
                    Ok(Ok(g)) => g,
                    Ok(Err(e)) => { println!("BOUNDED-FAIL h2_server input=(window {}, requests {:?}) expected=responses got={}", window, reqs, e); return false; }
                    Err(_) => { println!("BOUNDED-FAIL h2_server input=(window {}, requests {:?}) expected=responses got=no answer within 30 s", window, reqs); return false; }
                };
                for (k, i) in set.iter().enumerate() {
                    let (_, _, status, body) = &kinds[*i];
                    let g = &got[k];
                    let cl_ok = match g.content_length { None => true, Some(v) => kinds[*i].0 == "HEAD" || v == g.body.len() };
                    let bodiless_ok = *status != 204 || g.content_length.is_none();
                    if g.status != *status || g.body != *body || !cl_ok || !bodiless_ok || g.hop_headers {
                        println!("BOUNDED-FAIL h2_server input=(window {}, requests {:?}, response {}) expected=(status {}, {} body bytes, a matching content-length if any, none for 204, no connection-specific headers) got=(status {}, {} body bytes, content-length {:?}, connection-specific headers {})",
                            window, reqs, k, status, body.len(), g.status, g.body.len(), g.content_length, g.hop_headers);
                        return false;
                    }
                }
            }
        }
        println!("BOUNDED-OK h2_server cases={}", n);
        true
    }
}

// ---------------------------------------------------------------- HTTP/1 deadlines in virtual time (C06)
mod timers {
    use std::{io, pin::Pin, task::{Context, Poll}, time::Duration};
    use actix_http::{body::BoxBody, HttpService, Request, Response};
    use actix_service::{fn_service, Service, ServiceFactory};
    use tokio::io::{AsyncRead, AsyncReadExt, AsyncWrite, AsyncWriteExt, DuplexStream, ReadBuf};

    const KEEP_ALIVE: u64 = 5; const SLOW_REQUEST: u64 = 3; const DISCONNECT: u64 = 2;

    async fn handle(_: Request) -> Result<Response<BoxBody>, std::convert::Infallible> { Ok(Response::ok().set_body("ok").map_into_boxed_body()) }

    /// a peer that never completes the TCP shutdown
    struct StuckShutdown(DuplexStream);
    impl AsyncRead for StuckShutdown { fn poll_read(mut self: Pin<&mut Self>, cx: &mut Context<'_>, b: &mut ReadBuf<'_>) -> Poll<io::Result<()>> { Pin::new(&mut self.0).poll_read(cx, b) } }
    impl AsyncWrite for StuckShutdown {
        fn poll_write(mut self: Pin<&mut Self>, cx: &mut Context<'_>, b: &[u8]) -> Poll<io::Result<usize>> { Pin::new(&mut self.0).poll_write(cx, b) }
        fn poll_flush(mut self: Pin<&mut Self>, cx: &mut Context<'_>) -> Poll<io::Result<()>> { Pin::new(&mut self.0).poll_flush(cx) }
        fn poll_shutdown(self: Pin<&mut Self>, _: &mut Context<'_>) -> Poll<io::Result<()>> { Poll::Pending }
    }

    fn secs(d: Duration) -> f64 { d.as_secs_f64() }

    async fn keep_alive_case() -> bool {
        tokio::time::pause();
        let build = || HttpService::build().keep_alive(Duration::from_secs(KEEP_ALIVE)).client_request_timeout(Duration::from_secs(SLOW_REQUEST)).client_disconnect_timeout(Duration::from_secs(DISCONNECT)).h1(fn_service(handle));
        let _ = &build;
        // 1. an idle kept-alive connection is closed once the keep-alive time has elapsed, and a request arriving in time is still served
        {
            let (mut client, server_io) = tokio::io::duplex(1 << 16);
            let svc = build().new_service(()).await.unwrap();
            actix_rt::spawn(async move { let _ = svc.call((server_io, None)).await; });
            client.write_all(b"GET / HTTP/1.1\r\n\r\n").await.unwrap();
            let mut buf = vec![0u8; 4096];
            let k = client.read(&mut buf).await.unwrap();
            if !buf[..k].starts_with(b"HTTP/1.1 200") { println!("BOUNDED-FAIL h1_timers input=(first request) expected=200 got={:?}", String::from_utf8_lossy(&buf[..k])); return false; }
            tokio::time::sleep(Duration::from_secs(KEEP_ALIVE - 1)).await;
            client.write_all(b"GET / HTTP/1.1\r\n\r\n").await.unwrap();
            let k = client.read(&mut buf).await.unwrap();
            if !buf[..k].starts_with(b"HTTP/1.1 200") { println!("BOUNDED-FAIL h1_timers input=(second request {} s after the first, keep-alive {} s) expected=200 got={:?}", KEEP_ALIVE - 1, KEEP_ALIVE, String::from_utf8_lossy(&buf[..k])); return false; }
            let t0 = tokio::time::Instant::now();
            let mut rest = Vec::new();
            let r = tokio::time::timeout(Duration::from_secs(60), client.read_to_end(&mut rest)).await;
            let idle = secs(t0.elapsed());
            if r.is_err() || idle < KEEP_ALIVE as f64 - 0.6 || idle > (KEEP_ALIVE + DISCONNECT) as f64 + 1.5 {
                println!("BOUNDED-FAIL h1_timers input=(idle kept-alive connection, keep-alive {} s) expected=closed by the server after about {} s got={}", KEEP_ALIVE, KEEP_ALIVE, if r.is_err() { "still open after 60 s".to_owned() } else { format!("closed after {:.1} s", idle) });
                return false;
            }
        }
        true
    }
    async fn slow_request_case() -> bool {
        tokio::time::pause();
        let build = || HttpService::build().keep_alive(Duration::from_secs(KEEP_ALIVE)).client_request_timeout(Duration::from_secs(SLOW_REQUEST)).client_disconnect_timeout(Duration::from_secs(DISCONNECT)).h1(fn_service(handle));
        let _ = &build;
        // 2. a request head that does not arrive in time is answered with 408 and the connection closed
        {
            let (mut client, server_io) = tokio::io::duplex(1 << 16);
            let svc = build().new_service(()).await.unwrap();
            actix_rt::spawn(async move { let _ = svc.call((server_io, None)).await; });
            client.write_all(b"GET / HT").await.unwrap();
            let t0 = tokio::time::Instant::now();
            let mut out = Vec::new();
            let r = tokio::time::timeout(Duration::from_secs(60), client.read_to_end(&mut out)).await;
            let took = secs(t0.elapsed());
            if r.is_err() || !out.starts_with(b"HTTP/1.1 408") || took < SLOW_REQUEST as f64 - 0.6 || took > (SLOW_REQUEST + DISCONNECT) as f64 + 1.5 {
                println!("BOUNDED-FAIL h1_timers input=(request head never completed, slow-request timeout {} s) expected=408 and close after about {} s got=({:?} after {:.1} s{})", SLOW_REQUEST, SLOW_REQUEST, String::from_utf8_lossy(&out[..out.len().min(20)]), took, if r.is_err() { ", still open" } else { "" });
                return false;
            }
        }
        true
    }
    async fn stuck_shutdown_case() -> bool {
        tokio::time::pause();
        // 3. shutdown never outlasts the disconnect timeout: the peer never completes the TCP shutdown
        {
            let (mut client, server_io) = tokio::io::duplex(1 << 16);
            let svc = HttpService::build().keep_alive(Duration::from_secs(KEEP_ALIVE)).client_request_timeout(Duration::from_secs(SLOW_REQUEST)).client_disconnect_timeout(Duration::from_secs(DISCONNECT)).h1(fn_service(handle)).new_service(()).await.unwrap();
            let done = actix_rt::spawn(async move { svc.call((StuckShutdown(server_io), None)).await.is_err() });
            client.write_all(b"GET / HTTP/1.1\r\n\r\n").await.unwrap();
            let mut buf = vec![0u8; 4096];
            let _ = client.read(&mut buf).await.unwrap();
            let t0 = tokio::time::Instant::now();
            let r = tokio::time::timeout(Duration::from_secs(120), done).await;
            let took = secs(t0.elapsed());
            let limit = (KEEP_ALIVE + DISCONNECT) as f64 + 1.5;
            if r.is_err() || took > limit {
                println!("BOUNDED-FAIL h1_timers input=(idle connection whose peer never completes the shutdown; keep-alive {} s, disconnect timeout {} s) expected=the connection task ends within {:.1} s got={}", KEEP_ALIVE, DISCONNECT, limit, if r.is_err() { "still running after 120 s".to_owned() } else { format!("ended after {:.1} s", took) });
                return false;
            }
            drop(client);
        }
        true
    }
    pub fn check() -> bool {
        // virtual time (tokio's paused clock): it only moves when every task is idle, so the measured durations are exact and load-independent
        let a = actix_rt::System::new().block_on(keep_alive_case());
        let b = a && actix_rt::System::new().block_on(slow_request_case());
        let c = b && actix_rt::System::new().block_on(stuck_shutdown_case());
        if c { println!("BOUNDED-OK h1_timers cases=3"); }
        c
    }
}
