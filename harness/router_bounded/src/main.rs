//! BOUNDED stand-in for the parts of C10 no contract reaches (the regex `ResourceDef::parse` builds, the percent
//! re-quoter): the REAL actix-router crate from /repo, exhaustively over every path up to a small length over a small
//! alphabet, against reference functions written from the property statement. Labelled bounded; never counted as proved.
//! Prints `BOUNDED-OK <name> cases=<n>` or `BOUNDED-FAIL <name> input=<..> expected=<..> got=<..>` (first failure per family).
use actix_router::{Path, Quoter, ResourceDef};

/// the thorough tier explores a larger space (VERIF_HARNESS_TIER is set by tools/native_driver.py)
fn thorough() -> bool { std::env::var("VERIF_HARNESS_TIER").map(|v| v == "thorough").unwrap_or(false) }

fn all_strings(alpha: &[u8], max_len: usize) -> Vec<Vec<u8>> {
    let mut out = vec![vec![]];
    let mut layer = vec![vec![]];
    for _ in 0..max_len {
        let mut next = Vec::new();
        for s in &layer {
            for &c in alpha {
                let mut t = s.clone();
                t.push(c);
                next.push(t);
            }
        }
        out.extend(next.iter().cloned());
        layer = next;
    }
    out
}

/// reference: a pattern is a list of elements; returns (matched length, captures) of the match anchored at 0
#[derive(Clone)]
enum El {
    Lit(&'static str),
    Seg(&'static str),  // {name}: a non-empty run without '/'
    Tail(&'static str), // {name}*: everything that is left
}

fn reference(els: &[El], prefix: bool, path: &str) -> Option<(usize, Vec<(&'static str, String)>)> {
    let mut pos = 0;
    let mut caps = Vec::new();
    for el in els {
        match el {
            El::Lit(l) => {
                if !path[pos..].starts_with(l) {
                    return None;
                }
                pos += l.len();
            }
            El::Seg(name) => {
                // the only elements that follow a Seg in the patterns below start with '/' (or nothing follows):
                // the run is the maximal run without '/'
                let run = path[pos..].find('/').unwrap_or(path.len() - pos);
                if run == 0 {
                    return None;
                }
                caps.push((*name, path[pos..pos + run].to_owned()));
                pos += run;
            }
            El::Tail(name) => {
                caps.push((*name, path[pos..].to_owned()));
                pos = path.len();
            }
        }
    }
    let has_tail = matches!(els.last(), Some(El::Tail(_)));
    if has_tail {
        return Some((pos, caps));
    }
    if prefix {
        // a prefix stops only at a segment boundary
        if pos == path.len() || path[pos..].starts_with('/') {
            Some((pos, caps))
        } else {
            None
        }
    } else if pos == path.len() {
        Some((pos, caps))
    } else {
        None
    }
}

fn check_pattern(name: &str, pat: &'static str, prefix: bool, els: &[El], paths: &[String]) -> bool {
    let def = if prefix { ResourceDef::prefix(pat) } else { ResourceDef::new(pat) };
    let mut n = 0usize;
    for p in paths {
        n += 1;
        let exp = reference(els, prefix, p);
        let got_bool = def.is_match(p);
        let got_len = def.find_match(p);
        let mut path = Path::new(p.as_str());
        let got_cap = def.capture_match_info(&mut path);
        let exp_bool = exp.is_some();
        let exp_len = exp.as_ref().map(|e| e.0);
        if got_bool != exp_bool || got_len != exp_len || got_cap != exp_bool {
            println!(
                "BOUNDED-FAIL {} input={:?} expected=(match {}, len {:?}) got=(is_match {}, find_match {:?}, capture {})",
                name, p, exp_bool, exp_len, got_bool, got_len, got_cap
            );
            return false;
        }
        if let Some((len, caps)) = exp {
            for (k, v) in &caps {
                if path.get(k) != Some(v.as_str()) {
                    println!("BOUNDED-FAIL {} input={:?} expected={}={:?} got={:?}", name, p, k, v, path.get(k));
                    return false;
                }
            }
            if path.unprocessed() != &p[len..] {
                println!("BOUNDED-FAIL {} input={:?} expected=unprocessed {:?} got={:?}", name, p, &p[len..], path.unprocessed());
                return false;
            }
        }
    }
    println!("BOUNDED-OK {} cases={}", name, n);
    true
}

fn hex(b: u8) -> Option<u8> {
    match b {
        b'0'..=b'9' => Some(b - b'0'),
        b'a'..=b'f' => Some(b - b'a' + 10),
        b'A'..=b'F' => Some(b - b'A' + 10),
        _ => None,
    }
}

/// reference for the partial percent-decoder: every valid escape of a byte that is not a protected ASCII byte is
/// decoded, nothing else changes; None when nothing was decoded
fn requote_ref(input: &[u8], protected: &[u8]) -> Option<Vec<u8>> {
    let mut out = Vec::new();
    let mut changed = false;
    let mut i = 0;
    while i < input.len() {
        if input[i] == b'%' && i + 2 < input.len() {
            if let (Some(h), Some(l)) = (hex(input[i + 1]), hex(input[i + 2])) {
                let ch = (h << 4) | l;
                if !(ch < 128 && protected.contains(&ch)) {
                    out.push(ch);
                    changed = true;
                    i += 3;
                    continue;
                }
            }
        }
        out.push(input[i]);
        i += 1;
    }
    if changed { Some(out) } else { None }
}

fn check_quoter() -> bool {
    let protected = b"%/+";
    let q = Quoter::new(b"", protected);
    let inputs = all_strings(b"%2F5b4a", if thorough() { 7 } else { 6 });
    let mut n = 0usize;
    for s in &inputs {
        n += 1;
        let exp = requote_ref(s, protected);
        let got = q.requote(s);
        if exp != got {
            println!(
                "BOUNDED-FAIL requote input={:?} expected={:?} got={:?}",
                String::from_utf8_lossy(s),
                exp.map(|v| String::from_utf8_lossy(&v).into_owned()),
                got.map(|v| String::from_utf8_lossy(&v).into_owned())
            );
            return false;
        }
    }
    println!("BOUNDED-OK requote cases={}", n);
    true
}

fn main() {
    let paths: Vec<String> = all_strings(b"/ux", if thorough() { 10 } else { 8 }).into_iter().map(|v| String::from_utf8(v).unwrap()).collect();
    let mut ok = true;
    ok &= check_pattern("dynamic_full", "/u/{id}", false, &[El::Lit("/u/"), El::Seg("id")], &paths);
    ok &= check_pattern("dynamic_prefix", "/u/{id}", true, &[El::Lit("/u/"), El::Seg("id")], &paths);
    ok &= check_pattern("two_segments", "/{a}/x/{b}", false, &[El::Lit("/"), El::Seg("a"), El::Lit("/x/"), El::Seg("b")], &paths);
    ok &= check_pattern("dynamic_prefix_trailing_slash", "/{id}/", true, &[El::Lit("/"), El::Seg("id"), El::Lit("/")], &paths);
    ok &= check_pattern("dynamic_full_trailing_slash", "/{id}/", false, &[El::Lit("/"), El::Seg("id"), El::Lit("/")], &paths);
    ok &= check_pattern("tail", "/u/{rest}*", false, &[El::Lit("/u/"), El::Tail("rest")], &paths);
    ok &= check_pattern("static_full", "/ux", false, &[El::Lit("/ux")], &paths);
    ok &= check_pattern("static_prefix", "/ux", true, &[El::Lit("/ux")], &paths);
    ok &= check_quoter();
    std::process::exit(if ok { 0 } else { 1 });
}
