#!/usr/bin/env python3
"""Prints the prompt given to an independent sub-agent that seeds a property-breaking change."""
import json, sys
pid = sys.argv[1]
wt = sys.argv[2]
p = None
for l in open('/verif/properties.jsonl'):
    q = json.loads(l)
    if q['id'] == pid:
        p = q
print(f"""You are helping to evaluate a verification tool. Your job: produce TWO independent, realistic code changes (call them A and B) to the Rust project actix-web that each BREAK the semantic property given below, while the project still compiles and its EXISTING test suite still passes.

Work ONLY inside your own scratch git worktree of the repository: {wt}   (it is a git worktree of the actix-web workspace at the pinned commit). Never read or write /repo or /verif. Everything is offline (no network): always pass --offline to cargo. To avoid a long cold build you may first run `cp -a /repo/target {wt}/target` (read-only use of /repo/target is fine) and always build with `CARGO_TARGET_DIR={wt}/target`.

THE PROPERTY ({pid}): {p['title']}
Statement: {p['statement']}
Quantified over: {p['quantifier']['text']}
Code it is anchored in: {', '.join(p['anchors']['files'])}

Requirements for each change (A and B):
1. It is a small, plausible edit to library source (not tests) -- the kind of slip or "optimisation" a maintainer could make in a refactor: an off-by-one, a dropped reset, a reordered check, a wrong comparison, a missing wake-up, a condition that ignores one case, two sites that each look fine alone.
2. It must need something SPECIFIC to manifest (an unusual input, a particular split of the input across reads, a multi-step operation sequence, a particular interleaving or state) -- NOT something ordinary use or the existing tests expose at once.
3. The workspace must still compile, and the existing tests of the affected crate(s) must still pass UNEDITED: run e.g. `CARGO_TARGET_DIR={wt}/target cargo test -p <crate> --offline` (add `--all-features` or the features that crate's tests normally need, e.g. actix-http tests need `--features ws,http2,compress-gzip` or simply `--all-features`) and confirm 0 failures. If a test fails with your change, pick a different change.
4. A demonstration: a NEW test (a `#[test]`/`#[actix_rt::test]` in a new file under the crate's tests/ directory, or a new #[cfg(test)] module appended at the end of the source file if private items are needed) that FAILS with the change and PASSES without it. Confirm both directions by actually running it (use `git stash` / `git apply -R` to toggle the change).
5. A and B must break the property through DIFFERENT functions/mechanisms.

Deliverables, written to {wt}/_out/ (create it):
  A/patch.diff   -- `git diff` of the library change only (no demo test inside), applies with `git apply` at the worktree root on a clean checkout
  A/demo.diff    -- `git diff` adding only the demonstration test (applies on a clean checkout, independent of patch.diff)
  A/README.md    -- which clause of the property it breaks, what exactly is needed for it to manifest, the exact commands you ran (existing tests with the patch: pass; demo with patch: fail; demo without patch: pass) and their observed results
  B/...          -- same for the second change
Leave the worktree CLEAN at the end (git checkout -- . ; remove untracked files except _out/ and target/).

In your final answer give a 10-line summary: for A and B, the file/function changed, the idea, and the observed test results. Be honest: if you could not make one of them satisfy all requirements, say so.""")
