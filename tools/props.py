"""Property -> components table.  The text of the properties is in /verif/properties.jsonl (fixed)."""

GLOBAL_TRUSTED = [
    "Verus 0.2026.09.13 + Z3 (verifier soundness)",
    "the extractor tools/extract.py and its rewrite catalogue R1-R11 (every applied rewrite is listed in coverage.rewrites_applied and build/<unit>/unit.diff)",
    "shim contracts for external types (bytes, std::io, std::task, collections) are assumed, see shims/*.rs",
    "derived PartialEq on fieldless enums is structural",
]

HOOK_COMMITS = []

PROPS = {
    "C01": {
        "units": ["h1_chunked"],
        "kani": [],
        "technique": "Verus contracts (requires/ensures/loop invariants) on the extracted real chunked and payload decoders against an RFC 7230 byte automaton; segmentation independence as a lemma over those contracts",
        "level_text": "deductive proof, for all inputs and all iterations, that every chunked-decoder step is the RFC 7230 automaton's, that PayloadDecoder::decode emits exactly the framed bytes, and that the result is independent of read segmentation (lemma over the contracts)",
        "level_note": "assumes shim contracts for bytes::BytesMut/Bytes and httparse; dispatcher-level clauses listed under not_decided_clauses",
        "not_decided": [],
        "assumptions": [],
    },
}

PROPS["C07"] = {
    "units": ["h1_payload"],
    "kani": [],
    "technique": "Verus contracts on the extracted real h1::payload::Inner (representation invariant len == sum of queued chunks, whole-view postconditions with frames, waker tokens) plus a history lemma over those contracts",
    "level_text": "deductive proof for every operation of the body channel's shared state, for all inputs: FIFO order and exact bytes, ordering data -> error -> clean end, clean end only when the end flag is set and that flag is only set by feed_eof/new(true), Incomplete error when the sender goes away first, every sender-side mutation wakes and clears the registered reader, Pending registers the reader and wakes the feeder; history lemma (received is a prefix of fed) by induction over the contracts",
    "level_note": "assumes: shim contracts for VecDeque (vstd), Option::take, Waker/Context (wake establishes the woken token); register/register_io (closure inside Option::is_none_or) are external_body with an assumed contract; the Rc/Weak/RefCell glue of Payload/PayloadSender is not under contract (not_decided_clauses); wake-up DELIVERY by the runtime is outside any contract",
    "not_decided": ["Payload/PayloadSender glue (Rc<RefCell<Inner>>, Weak::upgrade, Drop for PayloadSender calling close_sender): not under contract in this unit",
                    "that the executor actually polls a woken task (runtime behaviour)"],
    "assumptions": ["feed_data/unread_data precondition: len + data.len() <= usize::MAX (sum of live allocations cannot exceed the address space)"],
}

_PENDING = "not claimed yet: contracts for this property are still under construction in this session"
NOT_APPLICABLE = {("C%02d" % i): _PENDING for i in range(1, 20)}
NOT_APPLICABLE["C06"] = "every clause is about instants (deadlines vs. arrival times, runtime timer ordering); no function contract expresses virtual time or scheduler ordering (DESIGN.md section 4 C06)"

