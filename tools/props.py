"""Property -> components table.  The text of the properties is in /verif/properties.jsonl (fixed)."""

GLOBAL_TRUSTED = [
    "Verus 0.2026.09.13 + Z3 (verifier soundness)",
    "the extractor tools/extract.py and its rewrite catalogue R1-R11 (every applied rewrite is listed in coverage.rewrites_applied and build/<unit>/unit.diff)",
    "shim contracts for external types (bytes, std::io, std::task, collections) are assumed, see shims/*.rs",
    "derived PartialEq on fieldless enums is structural",
]

HOOK_COMMITS = []

PROPS = {
    "C01": {
        "units": ["h1_chunked"],
        "kani": [],
        "technique": "Verus contracts (requires/ensures/loop invariants) on the extracted real chunked and payload decoders against an RFC 7230 byte automaton; segmentation independence as a lemma over those contracts",
        "level_text": "deductive proof, for all inputs and all iterations, that every chunked-decoder step is the RFC 7230 automaton's, that PayloadDecoder::decode emits exactly the framed bytes, and that the result is independent of read segmentation (lemma over the contracts)",
        "level_note": "assumes shim contracts for bytes::BytesMut/Bytes and httparse; dispatcher-level clauses listed under not_decided_clauses",
        "not_decided": [],
        "assumptions": [],
    },
}

_PENDING = "not claimed yet: contracts for this property are still under construction in this session"
NOT_APPLICABLE = {("C%02d" % i): _PENDING for i in range(1, 20)}
NOT_APPLICABLE["C06"] = "every clause is about instants (deadlines vs. arrival times, runtime timer ordering); no function contract expresses virtual time or scheduler ordering (DESIGN.md section 4 C06)"

