"""Property -> components table.  The text of the properties is in /verif/properties.jsonl (fixed)."""

GLOBAL_TRUSTED = [
    "Verus 0.2026.09.13 + Z3 (verifier soundness)",
    "the extractor tools/extract.py and its rewrite catalogue R1-R11 (every applied rewrite is listed in coverage.rewrites_applied and build/<unit>/unit.diff)",
    "shim contracts for external types (bytes, std::io, std::task, collections) are assumed, see shims/*.rs",
    "derived PartialEq on fieldless enums is structural",
]

HOOK_COMMITS = ["26e7f2c", "6959aad", "c557a63", "7798f29"]

PROPS = {
    "C01": {
        "units": ["h1_chunked", "h1_codec", "h1_framing", "h1_poll_request"],
        "kani": [],
        "technique": "Verus contracts (requires/ensures/loop invariants) on the extracted real chunked and payload decoders against an RFC 7230 byte automaton; MessageType::set_headers and Request::decode against an RFC 7230 section 3.3.3 framing oracle (a fold over the raw header list); Codec::decode's head/body separation; segmentation independence as a lemma over the decoder contracts",
        "level_text": "deductive proof, for all inputs and all iterations, that every chunked-decoder step is the RFC 7230 automaton's, that PayloadDecoder::decode emits exactly the framed bytes and that the result is independent of read segmentation (lemma over the contracts); that set_headers accepts a head exactly when the fold of the framing rules over its header list does (repeated or non-numeric/signed Content-Length, repeated or non-chunked Transfer-Encoding => ParseError::Header) and keeps every header in order; that Request::decode delivers a request only with the payload decoder the RFC 7230 section 3.3.3 oracle prescribes and rejects Content-Length together with Transfer-Encoding, Transfer-Encoding in HTTP/1.0 or not ending in chunked, HTTP/1.0 POST without length; normalises Content-Length: 0; consumes nothing unless a request is returned and never waits on a partial head of MAX_BUFFER_SIZE bytes or more; that the codec never hands body bytes to the head parser; and for InnerDispatcher::poll_request (the decode loop): after the codec reports a parse error it is never called again (ghost `poisoned` flag makes a further decode a precondition violation) in this call nor in any later one (READ_DISCONNECT is set and gates the function), the error is answered by exactly one queued response with status 431 for an oversized head and 400 otherwise, at most one error response is queued per call, and nothing is decoded while draining, with a full pipeline queue or after READ_DISCONNECT",
        "level_note": "assumes shim contracts for bytes::BytesMut/Bytes; the httparse call inside Request::decode (incl. MaybeUninit header array and HeaderIndex::record pointer arithmetic) is replaced by an assumed-contract shim (R12) whose result is: head length within the buffer, index ranges inside the head; header value text functions (to_str, trim, parse::<u64>, eq_ignore_ascii_case) are uninterpreted, with one assumed string fact relating the two spellings of `is chunked`",
        "not_decided": ["that the queued 400/431 is actually written and the connection then closed (poll_response / Dispatcher::poll: not under contract)", "httparse itself (head syntax, prefix-monotone Partial/Complete)", "the method/target/version/header VALUES the application sees (httparse + http crate)"],
        "assumptions": [],
    },
}

PROPS["C07"] = {
    "units": ["h1_payload"],
    "kani": [],
    "technique": "Verus contracts on the extracted real h1::payload::Inner (representation invariant len == sum of queued chunks, whole-view postconditions with frames, waker tokens) plus a history lemma over those contracts",
    "level_text": "deductive proof for every operation of the body channel's shared state, for all inputs: FIFO order and exact bytes, ordering data -> error -> clean end, clean end only when the end flag is set and that flag is only set by feed_eof/new(true), Incomplete error when the sender goes away first, every sender-side mutation wakes and clears the registered reader, Pending registers the reader and wakes the feeder; history lemma (received is a prefix of fed) by induction over the contracts",
    "level_note": "assumes: shim contracts for VecDeque (vstd), Option::take, Waker/Context (wake establishes the woken token); the Rc/Weak/RefCell glue of Payload/PayloadSender is not under contract (not_decided_clauses); wake-up DELIVERY by the runtime is outside any contract",
    "not_decided": ["Payload/PayloadSender glue (Rc<RefCell<Inner>>, Weak::upgrade, Drop for PayloadSender calling close_sender): not under contract in this unit",
                    "that the executor actually polls a woken task (runtime behaviour)"],
    "assumptions": ["feed_data/unread_data precondition: len + data.len() <= usize::MAX (sum of live allocations cannot exceed the address space)"],
}

PROPS["C02"] = {
    "units": ["h1_transfer_encoding", "h1_encode_headers", "h1_codec", "h1_dispatcher_io", "h1_chunked", "h1_poll_request", "h1_poll_response"],
    "kani": [],
    "technique": "Verus contracts on the extracted real TransferEncoding encoder against an RFC 7230 chunk-framing oracle (exact bytes appended, length enforcement, terminator exactly once, short body is an error); Verus contracts on the extracted real InnerDispatcher::{send_response_inner, send_response, send_error_response, send_continue, handle_request, poll_response} over a ghost wire log, ghost request ids and a ghost answered/in-hand/queued order; MessageType::encode_headers and helpers::write_content_length against an RFC 7230 section 3.3 head oracle (framing line, connection line, filtered handler headers, date, CRLF) with the oracle itself checked against the property's clauses by lemmas",
    "level_text": "deductive proof, for all chunk contents/lengths and encoder states, that TransferEncoding::encode/encode_eof append exactly the oracle's bytes (chunked: hex CRLF data CRLF, terminator once; sized: cut to the declared length; eof: pass-through) and that a short sized body yields UnexpectedEof; MessageEncoder::encode chooses the body framing from (HEAD?, body size, chunked allowed, upgrade stream) of THIS message only; Codec::encode encodes the head with exactly the context recorded when that request was decoded; poll_flush writes every buffered byte exactly once and in order; and the theorem decode-of-encode (lemma_decode_of_encode in unit h1_chunked, over the shared wire oracle specs/chunked_wire.vs): for every list of non-empty chunks, the bytes the chunked encoder writes are decoded by the RFC 7230 automaton to exactly their concatenation, ending in state End with nothing left over; for InnerDispatcher::poll_response / send_response / send_error_response (all schedules of handler completion, body readiness and arrival of later requests, since every future and body is an arbitrary prophesied stream): a response head is encoded only when no response is open and body chunks / the terminator only inside an open one (never interleaved: these are preconditions of the codec's encode, discharged at every call site), the sequence (request ids already answered ++ the one in hand ++ the queued ones) only ever grows at the back, so responses are started in exactly the order requests were queued with one head each; the response started is the one the service/expect future of the request in hand produced; the 100-continue interim is written only between responses; the dispatcher state and the encoder agree on whether a response is open; an idle return means the queue is empty; for MessageType::encode_headers, for every status, body size, chunked flag, version, connection type and handler header list: the bytes appended are exactly framing line ++ connection line ++ the handler headers that pass the filter ++ date (iff the handler set none) ++ CRLF, where 1xx/204 carry neither Content-Length nor Transfer-Encoding (and the handler's are dropped), 304 generates none and keeps the handler's, a sized body announces exactly its size, Transfer-Encoding: chunked is written exactly for an unsized body of a chunk-capable exchange, a generated framing header is never duplicated by a handler header, the handler's Connection header never reaches the wire, `connection: close` is written for Close on HTTP/1.1+, keep-alive for KeepAlive below 1.1, upgrade for Upgrade; the result depends on nothing but this response and the (version, connection type) arguments",
    "level_note": "assumes shim contracts for bytes::BytesMut and that writeln!(MutWriter(buf), \"{:X}\\r\", n) appends upper-hex(n) CR LF (R12); in h1_poll_response the codec's encode, the service/expect futures and the bodies are assumed contracts (ghost log, prophesied streams), pin projection is erased (R3/R4b/R4c) and termination of the outer loop is not proved; independence of framing across pipelined requests is the known finding S1",
    "not_decided": ["the upgrade hand-off (PollResponse::Upgrade) and Dispatcher::poll calling poll_request/poll_response in turn: not under contract; poll_response assumes poll_request leaves an in-flight state alone, poll_request assumes (precondition) that an idle dispatcher has an empty queue, which poll_response ensures on every idle return", "the ghost wire log of h1_poll_response is not connected to the bytes Codec::encode writes (unit h1_codec proves those separately)",
                    "framing depends only on that request/response, not on other pipelined requests (Codec context held while a response is in flight; DESIGN.md S1)",
                    "the unsafe raw-pointer header writer inside encode_headers (write_data / write_camel_case / advance_mut) and write_headers' merge of extra headers: replaced by assumed-contract glue (R12/R26)"],
    "assumptions": ["TransferEncoding::encode precondition: msg.len() + 2 <= usize::MAX (a slice cannot span the whole address space)"],
}
PROPS["C18"] = {
    "units": ["http_header_map", "http_header_map_iter"],
    "kani": [],
    "technique": "Verus contracts on the extracted real HeaderMap over an abstract view Map<name, Seq<value>> with representation invariant (no empty value list) and whole-view postconditions",
    "level_text": "deductive proof, for every map state and argument, that insert/append/remove/clear/get/contains_key/len_keys/is_empty transform the abstract multimap exactly as a reference multimap would (all other keys unchanged, order within a name preserved), preserve the representation invariant, that the Removed iterator yields the old values in order with an exact size hint; that Iter / Drain / IntoIter::next yield exactly the pending (name, value) pairs in insertion order within a name, keep `remaining` equal to the number of pairs still owed (exact size_hint) and terminate; every operation history is covered by induction over the invariant; that HeaderMap::from_drain (From<http::HeaderMap>) builds exactly the multimap the drain protocol describes (a value without a name belongs to the most recently named header; order within a name preserved)",
    "level_note": "assumes vstd's std HashMap specification (incl. entry API), the SmallVec shim (Vec-like), HeaderName obeys the hash key model and is already lower-cased by the http crate (case-insensitivity rests on that); closures (retain, Removed::new) are external_body with assumed contracts",
    "not_decided": ["HeaderMap::len / retain (closures) and the `remaining` value the iterator constructors compute from len()", "Keys iterator (delegates to hash_map::Keys)", "case-insensitive comparison: delegated to http::HeaderName normalisation (dependency)"],
    "assumptions": [],
}

PROPS["C14"] = {
    "units": ["ws_frame"],
    "kani": [
        {"crate": "actix-http", "features": "ws", "harness": "kb_apply_mask_len16", "kind": "bounded", "quick": True, "timeout": 1800,
         "bound": "slices of at most 16 bytes at each of the four alignments of the slice start; all contents and masks",
         "what": "ws::mask::apply_mask (unsafe align_to_mut fast path) == per-byte XOR with mask[i % 4]; bytes outside the slice untouched; no out-of-bounds access (backs the XOR contract the ws_frame unit assumes for apply_mask)"},
    ],
    "technique": "Verus contracts on the extracted real ws::Parser::{parse_metadata, parse} and OpCode conversions against an RFC 6455 section 5.2 header oracle; header segmentation lemma over the contracts",
    "level_text": "deductive proof, for all byte strings, roles and max_size values, that the frame parser decides exactly the RFC 6455 header (mask bit per role, reserved opcodes, 7/16/64-bit lengths), consumes nothing until a frame is complete, then consumes exactly idx+len bytes, unmasks the payload, rejects over-long control frames and never delivers more than max_size; decided headers are stable under extension of the input (segmentation lemma); that Parser::write_message appends exactly the RFC 6455 frame (minimal 7/16/64-bit length form at the 125/126/65535/65536 boundaries, mask bit and key per role, payload XOR key); and (round-trip lemma over the two contracts, all lengths and keys) that the receiving role's parser recovers fin, opcode, length and the original payload from an encoded frame followed by arbitrary bytes; Codec::decode follows the RFC 6455 section 5.4 fragmentation automaton",
    "level_note": "assumes shim contracts for BytesMut, big-endian helpers (R14) and apply_mask == XOR with key[i mod 4]; one obligation (oversize frame refused before buffering) fails on the unchanged tree and is recorded as a known finding",
    "not_decided": ["hash_key / verify_handshake (sha1, base64 dependencies; header parsing)", "payload bytes carried by Codec::decode's Frame (closures payload.map(|pl| pl.freeze())): only the frame kind and the continuation flag are decided", "Codec::encode (Message -> write_message arguments) and write_close", "apply_mask_fast32's unsafe align_to_mut (assumed equal to XOR with key[i mod 4])"],
    "assumptions": ["Parser::parse precondition: the buffer length fits usize (type invariant of BytesMut)"],
}

PROPS["C15"] = {
    "units": ["multipart_payload", "multipart_field", "multipart_boundary"],
    "kani": [],
    "technique": "Verus contracts on the extracted real multipart PayloadBuffer (conservation of bytes between stream, pending chunk and buffer; bounded fill; wake-up tokens) and its line/needle readers against a first-occurrence oracle",
    "level_text": "deductive proof, for all buffer states, boundaries, chunk sequences and limits, that InnerField::read_stream never emits a byte position that is or could still become the start of CRLF--boundary, ends the field exactly at a leading delimiter, consumes nothing otherwise, reports truncation at eof as Incomplete and terminates (decreases), that read_len emits exactly the declared count; and that PayloadBuffer::append_pending/poll_stream conserve bytes (buffer ++ pending is unchanged by moving data), never grow the buffer past its limit, set eof only at stream end, and never return without a wake-up source (stream registered, self-wake, or data the caller must consume); read_max/read_until/readline/readline_or_eof/unprocessed return exactly the specified prefix and report a truncated body as Incomplete; that Inner::read_boundary decides the line it takes (first line, or the rest at end of input) exactly as RFC 2046 5.1.1: `--boundary CRLF` => next part, `--boundary-- CRLF` or `--boundary--` at end of input => end of body, anything else => BoundaryMissing, no complete line and no end of input => waits having consumed nothing; that Inner::skip_until_boundary equals the recursive oracle `skip_spec` (drop complete lines up to the first line that is exactly a delimiter / close-delimiter line; Incomplete at end of input; otherwise wait with only whole non-delimiter lines consumed) and terminates",
    "level_note": "assumes shim contracts for BytesMut/Bytes, memchr::memmem::find == first occurrence, Stream::poll_next returning Pending registers the waker, Waker::wake_by_ref establishes the wake token",
    "not_decided": ["Inner::read_field_headers (httparse) and Inner::poll (the state machine that sequences read_boundary / read_field_headers / fields; Rc<RefCell> safety tokens): not under contract", "header parsing of each part (httparse dependency)", "composition of read_stream calls into the whole-field content (the per-call contract: emitted bytes are a prefix containing no position that is or may become a delimiter; a delimiter at the head ends the field; nothing else is consumed)"],
    "assumptions": ["poll_stream/append_pending precondition: buffer length fits usize; a parked pending chunk is non-empty (established by the functions themselves)"],
}

PROPS["C12"] = {
    "units": ["web_payload_body", "web_form_body", "multipart_payload", "web_json_body"],
    "kani": [],
    "technique": "Verus contracts with a loop invariant over a prophesied chunk sequence: the extractor's poll loop computes exactly the limit-checked fold `collect`; chunking independence as a lemma",
    "level_text": "deductive proof, for all chunk sequences and limits, that UrlEncoded (form extractor) refuses a declared over-limit Content-Length before reading and otherwise fails with Overflow exactly when a prefix sum of the decoded chunks exceeds the limit (the async block is lifted verbatim into a function, R9b); and, for all chunk sequences, limits and suspension points, that HttpMessageBody::poll (bytes/string extractors) returns exactly collect(chunks, limit): the concatenation if it fits, Overflow as soon as a prefix sum exceeds the limit, the stream's error otherwise; the same for JsonBody::poll (JSON extractor: the deserialiser is handed exactly the collected bytes, only after the stream ended within the limit; Overflow{limit} otherwise) and JsonBody::limit (a declared Content-Length above the limit becomes OverflowKnownLength before anything is read); that it never holds more than `limit` bytes (plus the chunk in hand); that a declared Content-Length above the limit is refused before reading (limit()); and (lemma) that the outcome is a function of the concatenation and the limit only; the multipart buffer bound is PayloadBuffer's (C15 unit)",
    "level_note": "assumes a finite body stream (prophesied remainder) that obeys the Stream contract, BytesMut/Bytes shims, allocations <= isize::MAX; the decompressor wrapped around the payload is a dependency (the limit applies to its output because the field `stream` has type Decompress<Payload> - checked structurally by the extracted struct)",
    "not_decided": ["body::to_bytes_limited (async fn around a poll_fn closure that captures the buffer mutably: outside the Verus subset) and the multipart form field limits", "content decoding itself (flate2/brotli/zstd)", "UrlEncoded: suspension points of the async block (R9 runs it eagerly; value-level outcome only)"],
    "assumptions": ["HttpMessageBody::poll precondition: the buffer starts within the limit (established by new(): empty buffer)"],
}

PROPS["C16"] = {
    "units": ["files_chunked"],
    "kani": [],
    "technique": "Verus contract with a representation invariant on the extracted real ChunkedReadFile::poll_next (counter <= size, reads issued at the current offset for min(remaining, 64 KiB) bytes)",
    "level_text": "deductive proof, for all sizes/offsets/read results and suspension points, that the ranged file stream never reads or emits past the requested length (counter <= size is an invariant), asks for exactly min(remaining, 65536) bytes at the current offset, advances offset and counter by exactly the bytes returned, and ends exactly when counter == size; no arithmetic overflow",
    "level_note": "assumes the read callback returns between 1 and max_bytes bytes on success (chunked_read_file_callback_sync: file.take(max_bytes), error on 0 bytes) and the Future/Context shims; pin projection erased (R3/R4)",
    "not_decided": ["path containment (PathBufWrap::parse_path): bounded Kani harness under construction", "Range header parsing (http_range dependency) and the Content-Range arithmetic inside NamedFile::into_response", "conditional headers (If-Match/If-None-Match/If-Modified-Since)", "joining the parsed relative path onto the root on a filesystem with symlinks"],
    "assumptions": ["poll_next precondition: offset + (size - counter) fits u64 (the range lies inside the file)"],
}

PROPS["C04"] = {
    "units": ["h1_dispatcher_io", "h1_payload"],
    "kani": [],
    "technique": "Verus contracts with ghost logs on the extracted real InnerDispatcher::{poll_flush, read_available, can_read, poll_linger} (socket accepted-bytes log, waker registration tokens) and on the body channel (h1_payload)",
    "level_text": "deductive proof, for every partial-write pattern (all n accepted per poll_write, Pending at any point), that poll_flush conserves bytes: socket-accepted ++ write_buf is invariant, the socket only ever receives a prefix of the buffered bytes in order, Ready(Ok) means everything was written and the buffer is empty, Pending means the socket registered the waker and exactly the written prefix was advanced; that read_available only appends, stops at the buffer cap, and whenever it reports `no more for now` a wake-up source exists (socket registered, self-wake, or the paused body consumer's io waker); that poll_linger first flushes (conserving the response bytes), returns Pending only with a wake-up source, and never leaves newly read input in the buffer; body-channel wake-ups are C07's contracts",
    "level_note": "assumes the AsyncRead/AsyncWrite contracts stated in shims/asyncio.rs (Pending registers the waker; a write accepts a prefix; not-ready is Pending not WouldBlock), Waker token, BytesMut shim; InnerDispatcher reduced to the projected fields; pin projection erased (R3/R4)",
    "not_decided": ["that Dispatcher::poll as a whole never returns Pending without a registration, and termination once the peer is done (liveness over the whole state machine): no contract within reach", "timer wake-ups (h1/timer.rs)"],
    "assumptions": ["poll_flush/read_available precondition: the io object is present (it is only taken on upgrade)"],
}
PROPS["C05"] = {
    "units": ["h1_dispatcher_io", "h1_poll_request", "h1_poll_response", "h1_payload", "multipart_payload", "web_payload_body"],
    "kani": [],
    "technique": "Verus contracts on the individual guard mechanisms: read_available's buffer cap, the body channel's back-pressure flag, bounded extractor/multipart buffers",
    "level_text": "deductive proof of each guard under contract, for all inputs: read_available attempts no read once read_buf holds MAX_BUFFER_SIZE bytes and otherwise only appends; the body channel's need_read flag is exactly (buffered < 32 KiB) after every feed/poll and can_read refuses to read while the consumer applies back-pressure; poll_stream/append_pending never grow the multipart buffer past its limit; HttpMessageBody never buffers beyond its limit; the response body (and error-response body) is polled only while write_buf holds fewer than h1_write_buffer_size bytes, so the buffer exceeds the limit by at most one encoded chunk",
    "level_note": "each guard is proved separately; their composition into one per-connection high-water mark over all schedules is not decided; the size of one encoded chunk is the handler's choice",
    "not_decided": ["the number of requests queued by ONE poll_request call (the 16-message limit is checked on entry only)", "the size of one socket read (spare capacity chosen by BytesMut::reserve)", "global maximum over executions"],
    "assumptions": [],
}

PROPS["C03"] = {
    "units": ["h1_dispatcher_io", "h1_codec", "h1_poll_request", "h1_poll_response"],
    "kani": [],
    "technique": "Verus contracts on the extracted real decision functions of the reuse discipline: should_close_for_unread_payload, enter_linger, can_read, read_available's FINISHED handling, Codec's connection-type bookkeeping; contracts on send_response / send_error_response / poll_response (Connection: close announced and linger/shutdown entered when the request body is unread and undrainable, keep-alive decision)",
    "level_text": "deductive proof, for all states, of the functions that implement close-means-close: the unread-payload close decision equals `body unfinished and not (dropped and drainable)`; enter_linger clears KEEP_ALIVE and sets LINGER|FINISHED touching nothing else; no read is attempted after READ_DISCONNECT; while an unread, dropped request body is being drained a successful read does not clear FINISHED (so the close decision survives the drain) and no other flag is touched; the codec records Close when keep-alive is disabled and a response's Close/Upgrade overrides the recorded type; body bytes are never handed to the head parser while a payload decoder is installed; for send_response / send_error_response: when the request body is unread and undrainable (or the connection is draining) and the response is not an upgrade, the head is encoded with connection type Close, and if the response has no body the flags are FINISHED plus LINGER without KEEP_ALIVE (disconnect deadline configured) or SHUTDOWN; for poll_response: at the end of a response body and of an error-response body alike, nothing pipelined and an unread undrainable request body put the connection into the same closing state; KEEP_ALIVE is set on an idle return exactly when the request body is finished and the codec still says keep-alive; draining drops the queue, clears KEEP_ALIVE and shuts down; for poll_linger (the state after an early response with an unread body): everything read from the peer is discarded, never left for the parser, the codec and the queue are not touched, and the linger state ends only in SHUTDOWN (peer closed / no disconnect deadline configured)",
    "level_note": "function-level proofs plus the invariants of poll_response; the connection-level statement is decided only up to the flags (that Dispatcher::poll acts on LINGER/SHUTDOWN/FINISHED is not under contract); one obligation (no request is dispatched after a close-announcing response) fails on the unchanged tree and is recorded as a known finding",
    "not_decided": ["Dispatcher::poll acting on the flags (LINGER -> poll_linger, SHUTDOWN -> poll_shutdown) and the linger deadline (shutdown timer: time)"],
    "assumptions": [],
}

PROPS["C10"] = {
    "units": [],
    "kani": [
        {"crate": "actix-router", "harness": "kc_hex_pair_to_char_full_domain", "kind": "complete", "quick": True, "timeout": 900,
         "what": "quoter::hex_pair_to_char: for all 65536 byte pairs the result is the positional hex value, None unless both are hex digits"},
        {"crate": "actix-router", "harness": "kc_ascii_bitmap_set_get", "kind": "complete", "quick": True, "timeout": 900,
         "what": "quoter::AsciiBitmap: set_bit then bit_at agree for every ASCII byte and arbitrary prior table contents; every other ASCII bit is unchanged"},
        {"crate": "actix-router", "harness": "kb_requote_len3", "kind": "bounded", "quick": False, "timeout": 1800, "bound": "every byte string of length exactly 3 (2^24 inputs), default protected set",
         "what": "Quoter::requote == reference partial percent-decoder (decode every valid non-protected %XY, copy everything else, None iff nothing decoded)"},
        {"crate": "actix-router", "harness": "kb_requote_len4", "kind": "bounded", "quick": False, "timeout": 3000, "bound": "every byte string of length exactly 4 (2^32 inputs), default protected set",
         "what": "Quoter::requote == reference partial percent-decoder"},
    ],
    "technique": "Kani function-level harnesses compiled into the real actix-router crate: loop-free helpers over their full input domain (complete), the percent-decoder against a reference decoder for all inputs of a fixed small length (bounded stand-in, not counted as proved)",
    "level_text": "proof (CBMC, bit-precise, full input domain) for the two loop-free helpers the partial percent-decoder is built from; the decoder loop itself is only checked for all inputs of length 3 and 4 (thorough tier) and that is reported as a bounded check; pattern matching proper is not decided",
    "level_note": "Verus cannot express the regex-backed matching (is_match / find_match / capture_match_info call into the regex crate) nor str-level code; Kani aborts (internal compiler error in kani-compiler on ResourceDef harnesses, out-of-memory/time-out on regex). Only the percent-decoder clause of the property is covered, and only its helpers at proof level.",
    "not_decided": ["the three match queries agree and match the pattern's language (regex crate semantics)", "prefixes stop only at a segment boundary (regex suffix built by ResourceDef::parse)", "captured values are exactly the matched substrings", "build/parse round trip (resource_path_from_iter)", "percent-decoder for inputs longer than the bounded harnesses"],
    "assumptions": [],
}

PROPS["C11"] = {
    "units": ["web_request_pool"],
    "kani": [],
    "technique": "Verus contracts on the extracted real HttpRequest::new / Drop::drop / AppInitService::call with the pool invariant as the pool's interface contract (push requires a clean request, pop returns a clean uniquely-owned one); whole-view postcondition `fresh`",
    "level_text": "deductive proof that (i) HttpRequest::drop hands an object to the pool only after clearing scoped app data down to the root entry, request extensions and connection data (the push precondition `pooled` is an obligation), never when the request is still shared; (ii) AppInitService::call produces, on BOTH the pooled and the freshly-allocated path, a request whose every observable field (head, url, skip, captured segments, matched resource path and flag, app-data stack, connection data, extensions, payload) is determined by the incoming request and the app configuration alone; the struct's field list is checked against the contract, so a new field makes the check undecided until the contract says how reuse resets it; the quantifier over request histories is discharged by the pool invariant",
    "level_note": "assumes std Rc/RefCell semantics (get_mut is Some iff unique), SmallVec shim, Extensions::clear empties; HttpRequestPool's interior mutability (RefCell<Vec>, Cell) is not modelled: its push/pop/is_available/disable bodies are not under contract, only their interface (the invariant) is",
    "not_decided": ["HttpRequestPool::{push, pop, is_available, disable} bodies (interior mutability)", "Url::update/Url::new recompute the decoded path from the new Uri (actix-router; see C09)", "isolation of ServiceRequest-level mutations made by middleware after call()"],
    "assumptions": ["drop precondition: the request-local extensions Rc has no other owner when the last HttpRequest handle is dropped (stated in the source comment)", "call precondition: the pool's root container is the service's app_data"],
}

PROPS["C09"] = {
    "units": ["web_resource_service", "router_recognize", "router_url"],
    "kani": [],
    "technique": "Verus contracts: loop invariant `every earlier route refused` on the extracted real ResourceService::call (ghost identity on the returned future); data-structure invariant `decoded path is the one computed from this Url's own uri` on the extracted real actix_router::Url",
    "level_text": "deductive proof, for every route list and request, that a matched resource dispatches to the FIRST registered route whose guards accept the request and otherwise to its default service, passing the request through unchanged; that Router::recognize_fn (the loop AppRouting and ScopeService search with) returns the value and id of the FIRST registered route whose pattern matches the remaining path and whose check (guards) accepts, records that route's match info in the resource and only that, and leaves the resource untouched when nothing matches; and that Url::new/update/update_with_quoter always recompute the percent-decoded path from the uri they are given (no stale path survives reuse of a pooled request)",
    "level_note": "assumes guards do not mutate the request (RouteService::check contract) and the service/future shims; in Router::recognize_fn the caller's FnMut check is modelled as a pure predicate of (resource, route context) (R26b) and ResourceDef::capture_match_info_fn is an assumed contract (regex based; Kani ICEs on ResourceDef); AppRouting::call / ScopeService::call (how the closure is built from the guards, the default fallback) are not under contract",
    "not_decided": ["AppRouting::call / ScopeService::call: nearest enclosing default, depth-first composition over nested scopes", "exactly the path parameters of the matched patterns (ResourceDef::capture_match_info_fn + Path::add)", "percent-decoding never moves a segment boundary (Quoter keeps %2F: see C10 bounded check)", "app_data resolves to the innermost registration", "builder-time registration (Scope::configure, App::service ...)"],
    "assumptions": [],
}

PROPS["C13"] = {
    "units": ["http_encoder_response", "http_encoder_poll"],
    "kani": [],
    "technique": "Verus contracts on the extracted real Encoder::response / update_head / Encoder::size: the wrap-or-pass-through decision as a postcondition over (body size, response head, requested coding); Encoder::poll_next (the streaming state machine) with a ghost record of what was written to / taken from the codec and a prophesied body remainder",
    "level_text": "deductive proof, for every response head, body kind and requested coding, that a body is wrapped by a content encoder exactly when it is non-empty, carries no Content-Encoding yet, the status is none of 101/204/206, the coding is not identity and the codec is compiled in; that exactly then Content-Encoding is set to that coding, Vary: accept-encoding appended and chunking re-enabled, and otherwise the head is left untouched and the body passed through unchanged; that an encoding body reports size Stream (so a stale Content-Length is never sent); for Encoder::poll_next, for every chunking, every chunk size (in-place and blocking-task path) and every suspension point: every byte the handler's body produces is written to the codec exactly once and in order, every byte taken out of the codec is emitted exactly once and in order, no empty chunk is emitted while encoding, finish() is called only after the body ended and, given the codec law `taken ++ finish() == code(written)`, the concatenation of all emitted chunks is code(the whole body); a finished codec never turns the encoder into a pass-through of further body polls (eof is set or None returned); after eof nothing is polled; an identity encoder forwards the body's items unchanged; the loop terminates",
    "level_note": "the codecs themselves (flate2, brotli, zstd) are assumed through the ghost codec law; the blocking task (spawn_blocking closure) is assumed glue that writes the chunk and hands the codec back; HeaderMap is abstracted to the facts update_head touches",
    "not_decided": ["losslessness of gzip/deflate/br/zstd (libraries)", "Decoder::poll_next (request side) state machine", "wake-up when the blocking task is pending (JoinHandle: runtime)", "AcceptEncoding::negotiate (q-values, wildcards: HashSet + iterator adapters)", "the Compress middleware wiring", "request-body decoding (Decompress)"],
    "assumptions": [],
}

PROPS["C17"] = {
    "units": ["h1_client_codec", "h1_chunked", "awc_pool_check"],
    "kani": [],
    "technique": "Verus contracts on the extracted real client codecs (ClientCodec::decode, ClientPayloadCodec::{decode, decode_eof}) and awc's PlStream::poll_next with a ghost release log; the payload decoders' exact-framing contracts are unit h1_chunked's",
    "level_text": "deductive proof that the body stream ends cleanly only when the payload decoder reported the framed end (Length counted to 0 / chunked End), or the body is close-delimited, or the status allows no body; that a connection that ends earlier yields an error (decode_eof); that a HEAD response never gets a body decoder; that the peer's keep-alive is not trusted beyond the request's own; and that PlStream releases the connection (on_release, with the codec's keep-alive verdict) exactly once, only on the framed-end item, never on data, error or Pending; exact bytes per framing are PayloadDecoder's contracts (C01 unit)",
    "level_note": "assumes actix_codec::Framed::next_item forwards what decode/decode_eof return (transcribed from actix-codec 0.5.2, dependency) and the connection shims; MessageDecoder<ResponseHead> (httparse) is a dependency shim",
    "not_decided": ["pool: number of simultaneously open connections <= limit (tokio Semaphore, task interleavings in pool.rs)", "no leftovers after an early-dropped body (Acquired::release/close; the idle-connection probe ConnectionCheckFuture::poll IS under contract: unread data => Tainted, only a quiet open connection is Live)", "response head parsing (httparse) and ClientCodec::encode"],
    "assumptions": ["ClientCodec::decode precondition: no payload decoder is installed (the debug_assert of the source, moved into requires)", "ClientPayloadCodec::decode precondition: a payload decoder is installed"],
}

PROPS["C08"] = {
    "units": ["h2_prepare_response", "h2_handle_response", "h2_payload"],
    "kani": [],
    "technique": "Verus contract with a loop invariant over the handler's header list on the extracted real h2 prepare_response: the outgoing header list is specified exactly (length prefix ++ kept(user headers) ++ date)",
    "level_text": "deductive proof, for every status, body size and header list, that the HTTP/2 response head carries no connection-specific header (connection, transfer-encoding, upgrade, keep-alive, proxy-connection), that content-length is present exactly once and equals the body size when the size is known, is absent when the response has no body (1xx/204), that a handler-set content-length is forwarded only for a streaming body, that every other handler header is copied in order, that a date header is added iff absent, and that the body size is forced to None for 1xx/204; for h2::Payload::poll_next (request body): every DATA chunk delivered to the application gives exactly its length back to the stream's receive window, nothing is released otherwise, chunks are delivered in order; for handle_response: for EVERY sequence of granted capacities and every chunking (incl. chunks larger than the window and empty chunks) the DATA bytes sent are exactly the concatenation of the body's chunks, each byte once and in order (loop invariants `sent ++ chunk_rest ++ pending == total`), END_STREAM is sent exactly after the last byte, a HEAD request or an empty body ends the stream with the head and sends no DATA, and a stream never reserves more flow-control window than min(pending chunk bytes, 16 KiB)",
    "level_note": "HeaderName is abstracted to the names this function distinguishes; http::HeaderMap insert/append are ghost-list shims; itoa formatting of the length and the date value are opaque",
    "not_decided": ["stream independence beyond `a stream never reserves more window than it has data pending` (scheduling between spawned tasks is the h2 crate's)", "liveness when the peer never grants capacity; resets (h2 crate)", "suspension points of handle_response (R9: awaits become blocking shim calls)"],
    "assumptions": [],
}

PROPS["C19"] = {
    "units": ["h1_chunked", "h1_transfer_encoding", "h1_codec", "h1_client_codec", "ws_frame", "multipart_payload", "multipart_field", "files_chunked", "h2_prepare_response", "http_header_map_iter", "web_payload_body", "web_form_body", "multipart_boundary", "h1_encode_headers", "web_json_body", "http_encoder_poll", "h2_payload"],
    "only_suffix": ["::safety"],
    "kani": [
        {"crate": "actix-router", "harness": "kc_hex_pair_to_char_full_domain", "kind": "complete", "quick": True, "timeout": 900,
         "what": "quoter::hex_pair_to_char: no panic / overflow for any byte pair (CBMC checks every arithmetic and pointer operation)"},
        {"crate": "actix-web", "harness": "kb_unquote_len3", "kind": "bounded", "quick": True, "timeout": 1800, "bound": "every valid-UTF-8 text of at most 3 bytes",
         "what": "info::unquote (Forwarded / X-Forwarded-* parameter values): no panic, no out-of-range or off-char-boundary slice"},
        {"crate": "actix-web", "harness": "kb_bare_address_len3", "kind": "bounded", "quick": True, "timeout": 1800, "bound": "every valid-UTF-8 text of at most 3 bytes",
         "what": "info::bare_address (Forwarded for= value): no panic, no out-of-range slice"},
        {"crate": "actix-web", "harness": "kb_unquote_len4", "kind": "bounded", "quick": False, "timeout": 3000, "bound": "every valid-UTF-8 text of at most 4 bytes",
         "what": "info::unquote: no panic"},
        {"crate": "actix-web", "harness": "kb_bare_address_len4", "kind": "bounded", "quick": False, "timeout": 3000, "bound": "every valid-UTF-8 text of at most 4 bytes",
         "what": "info::bare_address: no panic"},
    ],
    "technique": "Verus' unconditional per-function safety obligations (no arithmetic over/underflow, every index/slice in range through the R6 shim preconditions, no failed unwrap, callee preconditions, loop termination via decreases) on every extracted peer-facing parser",
    "level_text": "deductive proof, for ALL inputs, of panic-freedom and termination of the functions under contract that handle peer-controlled bytes: HTTP/1 chunked and length decoders, the transfer encoders, server and client codecs, WebSocket header/frame parser and fragment automaton, multipart buffer and field scanners (read_stream, read_len, read_until, poll_stream), ranged file stream arithmetic, HTTP/2 response-head preparation, header-map iterators, the bytes and form extractors' collection loops. Only the `safety` obligation of each function is counted here; their functional obligations belong to C01/C02/C12/C14/C15/C16/C17/C18",
    "level_note": "a function that is not extracted is not covered: the typed header parsers (content_disposition.rs, http/header/range.rs, types/query.rs) are built on regex/str combinators that Verus cannot take and contain no indexing or arithmetic of their own; info.rs's unquote/bare_address get a BOUNDED Kani check only (texts of at most 3, thorough 4, bytes: not counted as proved); actix-router path.rs u16 offsets, Request::decode below httparse, NamedFile range arithmetic and the unsafe header writer (encoder.rs) are NOT under contract",
    "not_decided": ["MessageType::encode_headers unsafe writer (raw pointer + length in sync)", "write_camel_case index arithmetic", "actix-router Path::add/skip u16 arithmetic (needs the url-length type invariant)", "NamedFile::into_response `offset + length - 1`", "typed header FromStr implementations (regex/str combinators: dependencies)", "Request::decode / HeaderIndex::record pointer arithmetic", "unbounded loops outside the extracted functions"],
    "assumptions": ["preconditions listed for each unit under C01..C18 (buffer lengths fit usize, allocations <= isize::MAX, boundary non-empty)"],
}

_PENDING = "not claimed yet: contracts for this property are still under construction in this session"
NOT_APPLICABLE = {("C%02d" % i): _PENDING for i in range(1, 20)}
NOT_APPLICABLE["C06"] = "every clause is about instants (deadlines vs. arrival times, runtime timer ordering); no function contract expresses virtual time or scheduler ordering (DESIGN.md section 4 C06)"

