"""Mechanical extractor: builds one Verus file per unit from /repo's current working tree.

See DESIGN.md section 2.1-2.4.  Every failure of the extractor is an `Undecided` exception (exit 2
in the driver), never an alarm.
"""
import difflib
import os
import re
import sys

sys.path.insert(0, os.path.dirname(__file__))
import rustlex as rl  # noqa: E402

REPO = os.environ.get("VERIF_REPO", "/repo")
VERIF = os.path.dirname(os.path.dirname(os.path.abspath(__file__)))


class Undecided(Exception):
    pass


# --------------------------------------------------------------------------------------------
# unit file parsing
# --------------------------------------------------------------------------------------------
class Clause:
    def __init__(self, kind, label, text):
        self.kind, self.label, self.text = kind, label, text


class UnitSpec:
    def __init__(self, name):
        self.name = name
        self.props = []
        self.shims = []
        self.sources = {}
        self.seq = []          # ordered emission directives: ('macro',src,name) ('item',src,kind,name,opts) ('fns',src,header,[names]) ('spec',text)
        self.index_recv = []   # R6 receivers
        self.rw = set()
        self.replaces = []     # (rid, scope, old, new, count)
        self.fn_clauses = {}   # qual -> [Clause]
        self.loop_clauses = {}  # (qual, ordinal) -> [Clause]   (kind invariant/decreases/invariant_except_break/ensures)
        self.ghosts = []       # (qual, where, anchor, text)
        self.substs = []       # (rid, scope, regex, replacement)
        self.attrs = {}        # qual -> [attr text]
        self.fields = {}       # struct -> [field names]
        self.sigs = {}         # qual -> replacement result name
        self.external = {}     # qual -> True: emit with #[verifier::external_body]
        self.features = set()
        self.notes = []        # free text: not decided clauses etc.
        self.trusted = []      # free-text assumptions declared by the unit
        self.selfsubst = {}    # header -> {Self::Item: type}
        self.no_unwind = []
        self.cover = {}


CL_RX = re.compile(r"^\s*(requires|ensures|invariant|invariant_except_break|decreases|returns)\b\s*(\[(\w+)\])?\s*(.*)$")


def parse_unit(path):
    name = os.path.splitext(os.path.basename(path))[0]
    u = UnitSpec(name)
    lines = open(path).read().split("\n")
    i = 0
    cur = None  # current clause target list
    mode = None

    def parse_clauses(start):
        out = []
        j = start
        curc = None
        while j < len(lines) and not lines[j].startswith("@"):
            ln = lines[j]
            m = CL_RX.match(ln)
            if m and (m.group(2) or m.group(1) == "decreases"):
                curc = Clause(m.group(1), m.group(3) or m.group(1), m.group(4))
                out.append(curc)
            elif ln.strip().startswith("#") and curc is None:
                pass
            elif curc is not None:
                curc.text += "\n" + ln
            elif ln.strip():
                raise Undecided("unit file %s:%d: text outside a clause" % (path, j + 1))
            j += 1
        for c in out:
            c.text = c.text.strip().rstrip(",").strip()
        return out, j

    while i < len(lines):
        ln = lines[i]
        if not ln.startswith("@"):
            if ln.strip() and not ln.strip().startswith("#"):
                raise Undecided("unit file %s:%d: stray text %r" % (path, i + 1, ln))
            i += 1
            continue
        parts = ln.split(None, 1)
        d = parts[0]
        rest = parts[1].strip() if len(parts) > 1 else ""
        i += 1
        if d == "@unit":
            u.name = rest
        elif d == "@props":
            u.props = rest.split()
        elif d == "@shims":
            u.shims += rest.split()
        elif d == "@source":
            k, v = [x.strip() for x in rest.split("=")]
            u.sources[k] = v
        elif d == "@features":
            u.features |= set(rest.split())
        elif d == "@macro":
            src, nm = rest.split()
            u.seq.append(("macro", src, nm))
        elif d == "@item":
            toks = rest.split()
            src, kind, nm = toks[0], toks[1], toks[2]
            opts = {}
            for t in toks[3:]:
                k, _, v = t.partition("=")
                opts[k] = v
            u.seq.append(("item", src, kind, nm, opts))
        elif d == "@fns":
            head, _, names = rest.rpartition(" : ")
            src, header = head.strip().split(None, 1)
            u.seq.append(("fns", src, header.strip(), names.split()))
        elif d == "@index":
            u.index_recv += rest.split()
        elif d == "@rw":
            u.rw |= set(rest.split())
        elif d == "@replace":
            m = re.match(r"(\w+)\s+(\S+)\s+(?:x(\d+)\s+)?`(.*)`\s*=>\s*`(.*)`\s*$", rest, re.S)
            if not m:
                # multi-line form: @replace R scope [xN] <<< \n old \n === \n new \n >>>
                m2 = re.match(r"(\w+)\s+(\S+)\s+(?:x(\d+)\s+)?<<<\s*$", rest)
                if not m2:
                    raise Undecided("bad @replace in %s:%d" % (path, i))
                old, new, tgt = [], [], None
                tgt = old
                while lines[i].strip() != ">>>":
                    if lines[i].strip() == "===":
                        tgt = new
                    else:
                        tgt.append(lines[i])
                    i += 1
                i += 1
                u.replaces.append((m2.group(1), m2.group(2), "\n".join(old), "\n".join(new), int(m2.group(3) or 1)))
            else:
                u.replaces.append((m.group(1), m.group(2), m.group(4), m.group(5), int(m.group(3) or 1)))
        elif d == "@subst":
            # @subst Rn scope /regex/ => `replacement`   (pattern rewrite: every match, possibly none; applied after the literal replaces)
            m = re.match(r"(\w+)\s+(\S+)\s+/(.*)/\s*=>\s*`(.*)`\s*$", rest)
            if not m:
                raise Undecided("bad @subst in %s:%d" % (path, i))
            u.substs.append((m.group(1), m.group(2), m.group(3), m.group(4)))
        elif d == "@fn":
            cl, i = parse_clauses(i)
            u.fn_clauses.setdefault(rest, []).extend(cl)
        elif d == "@loop":
            q, k = rest.split()
            cl, i = parse_clauses(i)
            u.loop_clauses.setdefault((q, int(k)), []).extend(cl)
        elif d == "@ghost":
            m = re.match(r"(\S+)\s+((?:before|after)(?:#\d+/\d+)?|body-start|body-end)\s*(?:`(.*)`)?\s*$", rest)
            if not m:
                raise Undecided("bad @ghost in %s:%d" % (path, i))
            txt = []
            while i < len(lines) and not lines[i].startswith("@"):
                txt.append(lines[i])
                i += 1
            u.ghosts.append((m.group(1), m.group(2), m.group(3), "\n".join(txt).rstrip(), None))
        elif d == "@attr":
            q, a = rest.split(None, 1)
            u.attrs.setdefault(q, []).append(a)
        elif d == "@fields":
            toks = rest.split()
            u.fields[toks[0]] = toks[1:]
        elif d == "@result":
            q, nm = rest.split()
            u.sigs[q] = nm
        elif d == "@external":
            u.external[rest.strip()] = True
        elif d == "@check":
            m = re.match(r"(\S+)\s+\[(\w+)\]\s+((?:before|after)(?:#\d+/\d+)?)\s+`(.*)`\s*$", rest)
            if not m:
                m = re.match(r"(\S+)\s+\[(\w+)\]\s+(body-end|body-start)()\s*$", rest)     # at the end / start of the function body
            if not m:
                raise Undecided("bad @check in %s:%d" % (path, i))
            txt = []
            while i < len(lines) and not lines[i].startswith("@"):
                txt.append(lines[i])
                i += 1
            u.ghosts.append((m.group(1), m.group(3), m.group(4), "assert(" + " ".join(x.strip() for x in txt if x.strip()) + ");", m.group(2)))
        elif d == "@lift":
            # @lift Qual::fn async_block => <call expression> ;; <signature of the lifted fn>
            q, rest2 = rest.split(None, 1)
            call, sigtxt = [x.strip() for x in rest2.split(";;")]
            u.no_unwind.append((q, call, sigtxt))
        elif d == "@implheader":
            ty, hdr = rest.split(None, 1)
            u.cover[ty] = hdr
        elif d == "@note":
            u.notes.append(rest)
        elif d == "@trusted":
            u.trusted.append(rest)
        elif d == "@include":
            ip = os.path.join(VERIF, rest.strip())
            if not os.path.exists(ip):
                raise Undecided("include file missing: %s" % rest)
            u.seq.append(("spec", "// ---- included: %s ----\n" % rest.strip() + open(ip).read()))
        elif d == "@spec":
            txt = []
            while i < len(lines) and lines[i].strip() != "@end":
                txt.append(lines[i])
                i += 1
            i += 1
            u.seq.append(("spec", "\n".join(txt)))
        else:
            raise Undecided("unit file %s:%d: unknown directive %s" % (path, i, d))
    return u


# --------------------------------------------------------------------------------------------
# locating items in a source file
# --------------------------------------------------------------------------------------------
class Source:
    def __init__(self, rel):
        self.rel = rel
        p = os.path.join(REPO, rel) if not os.path.isabs(rel) else rel
        if not os.path.exists(p):
            raise Undecided("source file missing: %s" % rel)
        self.text = open(p).read()
        self.mask = rl.mask(self.text)

    def line(self, idx):
        return rl.line_of(self.text, idx)

    def impls(self):
        """[(header_text, body_open_idx, body_close_idx)] for every top-level (depth-0, or inside
        a non-test mod) impl/trait block."""
        out = []
        m = self.mask
        for mt in re.finditer(r"\b(impl|trait)\b", m):
            # must be at item position: preceded by start/;/}/attribute end/visibility
            j = mt.start()
            pre = m[:j].rstrip()
            if pre and pre[-1] not in ";}]{" and not re.search(r"\b(pub|unsafe|pub\([a-z]+\))$", pre):
                continue
            k = j
            # header runs to the first '{' at angle/paren depth 0
            b = self._find_body_open(k)
            if b is None:
                continue
            e = rl.match_close(m, b)
            out.append((self.text[j:b].strip(), b, e))
        return out

    def _find_body_open(self, k):
        m = self.mask
        d = 0
        j = k
        while j < len(m):
            c = m[j]
            if c in "([":
                j = rl.match_close(m, j)
            elif c == "{":
                return j
            elif c == ";":
                return None
            j += 1
        return None

    def find_impl_fn(self, header, fname):
        hn = _norm(header)
        cands = []
        for (h, b, e) in self.impls():
            if _impl_header_matches(_norm(h), hn):
                for mt in re.finditer(r"\bfn\s+%s\b" % re.escape(fname), self.mask[b:e]):
                    at = b + mt.start()
                    if rl.depth_delta(self.mask, b, at) == 1:
                        cands.append((h, at, b, e))
        if not cands:
            raise Undecided("item not found: fn %s in `%s` of %s" % (fname, header, self.rel))
        if len(cands) > 1:
            raise Undecided("ambiguous item: fn %s in `%s` of %s" % (fname, header, self.rel))
        return cands[0]

    def find_free_fn(self, fname):
        cands = []
        for mt in re.finditer(r"\bfn\s+%s\b" % re.escape(fname), self.mask):
            if rl.depth_at(self.mask, mt.start()) == 0:
                cands.append(mt.start())
        if len(cands) != 1:
            raise Undecided("free fn %s: %d candidates in %s" % (fname, len(cands), self.rel))
        return cands[0]

    def fn_parts(self, at):
        """at = index of `fn`.  Returns (start_idx incl. qualifiers, sig_text, body_open, body_close)."""
        m = self.mask
        # walk back over qualifiers on the same logical item
        s = at
        while True:
            pre = m[:s].rstrip()
            mt = re.search(r"(pub\s*\([^)]*\)|pub|const|async|unsafe|default)$", pre)
            if mt:
                s = mt.start()
            else:
                break
        b = self._find_body_open(at)
        if b is None:
            raise Undecided("fn at %s:%d has no body" % (self.rel, self.line(at)))
        e = rl.match_close(m, b)
        return s, self.text[at:b], b, e

    def find_item(self, kind, name, depth=0):
        rx = {"enum": r"\benum\s+%s\b", "struct": r"\bstruct\s+%s\b", "const": r"\bconst\s+%s\b",
              "type": r"\btype\s+%s\b", "static": r"\bstatic\s+%s\b"}[kind] % re.escape(name)
        cands = [mt.start() for mt in re.finditer(rx, self.mask) if rl.depth_at(self.mask, mt.start()) == depth]
        if len(cands) != 1:
            raise Undecided("%s %s: %d candidates in %s" % (kind, name, len(cands), self.rel))
        at = cands[0]
        m = self.mask
        if kind in ("const", "type", "static"):
            e = m.index(";", at)
            return at, e + 1
        # struct / enum: body {...} or tuple struct (...);
        j = at
        while m[j] not in "{(;":
            j += 1
        if m[j] == ";":
            return at, j + 1
        e = rl.match_close(m, j)
        if m[j] == "(":
            e = m.index(";", e)
        return at, e + 1

    def attrs_before(self, at):
        """attribute lines (#[...]) directly above index `at` (skipping doc comments)."""
        lines = self.text[:at].split("\n")
        # drop the partial current line
        lines = lines[:-1]
        out = []
        k = len(lines) - 1
        while k >= 0:
            s = lines[k].strip()
            if s.startswith("#["):
                out.insert(0, s)
            elif s.startswith("//") or s == "":
                if s == "":
                    break
            else:
                break
            k -= 1
        return out

    def find_macro(self, name):
        mt = re.search(r"\bmacro_rules!\s*%s\b" % re.escape(name), self.mask)
        if not mt:
            raise Undecided("macro %s not found in %s" % (name, self.rel))
        j = mt.end()
        while self.mask[j] not in "({[":
            j += 1
        e = rl.match_close(self.mask, j)
        if self.mask[j] == "(":
            e = self.mask.index(";", e)
        return mt.start(), e + 1


def _norm(s):
    return re.sub(r"\s+", " ", s.strip())


def _impl_header_matches(actual, wanted):
    """wanted is e.g. `impl ChunkedState`, `impl Decoder for PayloadDecoder`, `impl<T> X<T>`,
    `trait MessageType`.  Generic parameter lists and where clauses of the actual header are
    ignored when the wanted header does not spell them."""
    if actual == wanted:
        return True

    def strip(h):
        h = re.sub(r"\bwhere\b.*$", "", h)
        # remove all <...> groups
        prev = None
        while prev != h:
            prev = h
            h = re.sub(r"<[^<>]*>", "", h)
        h = re.sub(r"\b(pub(\([a-z]+\))?|unsafe)\s+", "", h)
        h = re.sub(r":.*$", "", h) if h.startswith("trait") else h
        return _norm(h)
    return strip(actual) == strip(wanted)


# --------------------------------------------------------------------------------------------
# rewrites
# --------------------------------------------------------------------------------------------
LOG_MACROS = r"(?:log::|tracing::)?(?:trace|debug|error|warn|info)"


class Rewriter:
    def __init__(self, unit):
        self.unit = unit
        self.log = []

    def note(self, rid, scope, before, after):
        self.log.append({"rewrite": rid, "scope": scope, "before": before.strip()[:200], "after": after.strip()[:200]})

    def apply(self, scope, text):
        u = self.unit
        # per-unit literal replaces first (they quote the ORIGINAL source text), then the general rewrites
        for (rid, sc, old, new, cnt) in u.replaces:
            if sc != scope:
                continue
            n = text.count(old)
            if n != cnt:
                raise Undecided("lost anchor: @replace %s in %s expects %d occurrence(s) of %r, found %d" % (rid, scope, cnt, old[:60], n))
            text = text.replace(old, new)
            self.note(rid, scope, old, new)
        for (rid, sc, rx, new) in u.substs:
            if sc != scope:
                continue
            for mt in re.finditer(rx, text, re.M):
                self.note(rid, scope, mt.group(0), mt.expand(new))
            text = re.sub(rx, new, text, flags=re.M)
        text = self.r1_logs(scope, text)
        if "R5" in u.rw:
            text = self.r5_ready(scope, text)
        if "R3" in u.rw:
            text = self.r3_pin(scope, text)
        if "R4b" in u.rw:
            text = self.r4b_this_to_self(scope, text)
        if "R13" in u.rw:
            text = self.r13_bytestr(scope, text)
        if "R13o" in u.rw:
            text = self.r13_bytestr(scope, text, opaque=True)
        if u.index_recv:
            text = self.r6_index(scope, text)
        if "R16" in u.rw:
            text = self.r16_slice_eq(scope, text)
        if "R23" in u.rw:
            text = self.r23_option_closures(scope, text)
        if "R25" in u.rw:
            text = self.r25_ref_compare(scope, text)
        return text

    def r25_ref_compare(self, scope, text):
        """`x == &Path::Variant` / `x != &Path::Variant` (comparison through references) -> `*x == Path::Variant`"""
        rx = re.compile(r"(?<![\w.*&])(\w+)\s*(==|!=)\s*&(\w+(?:::\w+)+)\b(?!\s*\()")
        m = rl.mask(text)
        out = []
        last = 0
        for mt in rx.finditer(m):
            new = "*%s %s %s" % (mt.group(1), mt.group(2), mt.group(3))
            self.note("R25", scope, text[mt.start():mt.end()], new)
            out.append(text[last:mt.start()] + new)
            last = mt.end()
        out.append(text[last:])
        return "".join(out)

    def r23_option_closures(self, scope, text):
        """`RECV.is_some_and(|v| E)` -> `(match RECV { Some(v) => E, None => false })`,
        `RECV.is_none_or(|v| E)` -> `(match RECV { None => true, Some(v) => E })`  (the std definitions)"""
        while True:
            m = rl.mask(text)
            mt = re.search(r"\.\s*(is_some_and|is_none_or)\s*\(\s*\|\s*(\w+)\s*\|", m) or \
                re.search(r"(?<=\.as_ref\(\))\s*\.\s*(map)\s*\(\s*\|\s*(\w+)\s*\|", m) or \
                re.search(r"(?<=\.as_mut\(\))\s*\.\s*(map)\s*\(\s*\|\s*(\w+)\s*\|", m)
            if not mt:
                return text
            op = m.index("(", mt.start())
            cl = rl.match_close(m, op)
            body = text[mt.end():cl].strip()
            # receiver: walk left over a postfix chain
            i = mt.start()
            while i > 0:
                c = m[i - 1]
                if c.isalnum() or c in "_.?:":
                    i -= 1
                elif c in ")]":
                    # find matching opener
                    depth = 0
                    j = i - 1
                    while j >= 0:
                        if m[j] in ")]":
                            depth += 1
                        elif m[j] in "([":
                            depth -= 1
                            if depth == 0:
                                break
                        j -= 1
                    i = j
                elif c in " \t\n":
                    # only continue across whitespace inside a method chain (`\n    .as_ref()`)
                    k = i - 1
                    while k > 0 and m[k - 1] in " \t\n":
                        k -= 1
                    if m[i] == "." or (i < len(m) and m[i:].lstrip().startswith(".")):
                        prev = m[k - 1] if k > 0 else " "
                        if prev.isalnum() or prev in "_)]?":
                            i = k
                            continue
                    break
                else:
                    break
            recv = text[i:mt.start()].strip()
            v = mt.group(2)
            if mt.group(1) == "map":
                new = "(match %s { Some(%s) => Some(%s), None => None })" % (recv, v, body)
            elif mt.group(1) == "is_some_and":
                new = "(match %s { Some(%s) => %s, None => false })" % (recv, v, body)
            else:
                new = "(match %s { None => true, Some(%s) => %s })" % (recv, v, body)
            self.note("R23", scope, text[i:cl + 1], new)
            text = text[:i] + new + text[cl + 1:]

    def r16_slice_eq(self, scope, text):
        """`X.slice(a, b) == RHS` (result of R6 on `&X[a..b] == RHS`) -> `bytes_eq(X.slice(a, b), RHS)`"""
        recvs = sorted(self.unit.index_recv, key=len, reverse=True)
        alt = "|".join(re.escape(r) for r in recvs)
        rx = re.compile(r"(?<![\w.$])((?:%s)\.slice(?:_from|_to|_all)?)\(" % alt)
        pos = 0
        while True:
            m = rl.mask(text)
            mt = rx.search(m, pos)
            if not mt:
                return text
            op = mt.end() - 1
            cl = rl.match_close(m, op)
            k = cl + 1
            while k < len(m) and m[k] in " \t\n":
                k += 1
            if m.startswith("==", k) or (m.startswith("!=", k)):
                neg = m.startswith("!=", k)
                j = k + 2
                while j < len(m) and m[j] in " \t\n":
                    j += 1
                e = j
                d = 0
                while e < len(m):
                    c = m[e]
                    if c in "([":
                        e = rl.match_close(m, e)
                    elif c in ")]};," or c == "{":
                        break
                    elif m.startswith("&&", e) or m.startswith("||", e):
                        break
                    e += 1
                rhs = text[j:e].rstrip()
                lhs = text[mt.start():cl + 1]
                new = "%sbytes_eq(%s, %s)" % ("!" if neg else "", lhs, rhs)
                self.note("R16", scope, text[mt.start():j + len(rhs)], new)
                text = text[:mt.start()] + new + text[j + len(rhs):]
                pos = mt.start() + len(new)
            else:
                pos = cl + 1

    def r1_logs(self, scope, text):
        while True:
            m = rl.mask(text)
            mt = re.search(r"(?<![\w:])%s!\s*\(" % LOG_MACROS, m)
            if not mt:
                return text
            op = mt.end() - 1
            cl = rl.match_close(m, op)
            e = cl + 1
            k = e
            while k < len(text) and text[k] in " \t":
                k += 1
            if k < len(text) and text[k] == ";":
                e = k + 1
            self.note("R1", scope, text[mt.start():e], "")
            text = text[:mt.start()] + text[e:]

    def r3_pin(self, scope, text):
        for rx, new in ((r"\bself\.get_mut\(\)", "self"), (r"Pin::new\(&mut\s+\*?([\w.]+)\)", r"\1"), (r"Pin::new\(([\w.]+)\)", r"\1"),(r"\bmut\s+self\s*:\s*Pin<&mut Self>", "&mut self"), (r"\bself\s*:\s*Pin<&mut Self>", "&mut self"),
                        (r"\bself\s*:\s*Pin<&mut\s+Self>", "&mut self")):
            for mt in list(re.finditer(rx, text)):
                self.note("R3", scope, mt.group(0), new)
            text = re.sub(rx, new, text)
        return text

    def r4b_this_to_self(self, scope, text):
        """pin-projection erasure for functions that re-project (`this = self.as_mut().project()`):
        the projection bindings are deleted and `*this.f` / `this.f` become `self.f`; `self.as_mut().m(` -> `self.m(`"""
        m = rl.mask(text)
        if not re.search(r"\bthis\b", m):
            return text
        rules = [(r"let\s+(?:mut\s+)?this\s*=\s*self(?:\.as_mut\(\))?\.project\(\);", ""),
                 (r"\bthis\s*=\s*self(?:\.as_mut\(\))?\.project\(\);", ""),
                 (r"\*this\.", "self."), (r"\bthis\.", "self."), (r"\bself\.as_mut\(\)\.", "self.")]
        n = 0
        # a projected field passed as a whole call argument (`f(this.flags)`, `.encode(x, this.write_buf)`) is the
        # projected `&mut F` being reborrowed: `&mut *this.f` (then `&mut self.f` by the rules below)
        m = rl.mask(text)
        out, last = [], 0
        for mt in re.finditer(r"(?<=[(,])(\s*)this\.(\w+)(\s*)(?=[,)])", m):
            out.append(text[last:mt.start()] + mt.group(1) + "&mut *this." + mt.group(2) + mt.group(3))
            last = mt.end()
            n += 1
        out.append(text[last:])
        text = "".join(out)
        for rx, new in rules:
            out = []
            last = 0
            m = rl.mask(text)
            for mt in re.finditer(rx, m):
                out.append(text[last:mt.start()] + new)
                last = mt.end()
                n += 1
            out.append(text[last:])
            text = "".join(out)
        self.note("R4b", scope, "%d projection sites (`this.f`, `*this.f`, `self.as_mut().m(`, `this = self.project()`)" % n, "`self.f` / `self.m(`")
        return text

    def r13_bytestr(self, scope, text, opaque=False):
        """b"..." -> &[b0, b1, ...] (the same bytes, as an array literal whose contents Verus can see);
        R13o: -> byte_str_opaque(N): only the length is kept (for units whose clauses do not depend on the bytes)"""
        out = []
        i = 0
        n = len(text)
        m = rl.mask(text)
        pos = 0
        for mt in re.finditer(r'(?<![\w])b"', text):
            s = mt.start()
            if s < pos or m[s] != '"':
                continue
            e = rl._string_end(text, s)
            lit = text[s + 2:e - 1]
            bs = _decode_bytestr(lit)
            new = ("byte_str_opaque(%d)" % len(bs)) if opaque else "&[" + ", ".join("%du8" % b for b in bs) + "]"
            self.note("R13o" if opaque else "R13", scope, text[s:e], new)
            out.append(text[pos:s] + new)
            pos = e
        out.append(text[pos:])
        return "".join(out)

    def r5_ready(self, scope, text):
        while True:
            m = rl.mask(text)
            mt = re.search(r"(?<![\w:])ready!\s*\(", m)
            if not mt:
                return text
            op = mt.end() - 1
            cl = rl.match_close(m, op)
            inner = text[op + 1:cl]
            new = "(match %s { Poll::Ready(v__) => v__, Poll::Pending => return Poll::Pending })" % inner.strip()
            self.note("R5", scope, text[mt.start():cl + 1], new)
            text = text[:mt.start()] + new + text[cl + 1:]

    def r6_index(self, scope, text):
        recvs = sorted(self.unit.index_recv, key=len, reverse=True)
        alt = "|".join(re.escape(r) for r in recvs)
        rx = re.compile(r"(&\s*(?:mut\s+)?)?(?<![\w.$])((?:\$)?(?:%s))\s*\[" % alt)
        pos = 0
        while True:
            m = rl.mask(text)
            mt = rx.search(m, pos)
            if not mt:
                return text
            op = mt.end() - 1
            cl = rl.match_close(m, op)
            inner = text[op + 1:cl].strip()
            recv = mt.group(2)
            amp = mt.group(1)
            parts = _split_range(inner)
            if parts is None:
                if amp:
                    new = "%s%s.at(%s)" % (amp, recv, inner)
                else:
                    new = "%s.at(%s)" % (recv, inner)
            else:
                lo, hi, incl = parts
                if incl:
                    hi = "(%s) + 1" % hi
                if lo and hi:
                    new = "%s.slice(%s, %s)" % (recv, lo, hi)
                elif lo:
                    new = "%s.slice_from(%s)" % (recv, lo)
                elif hi:
                    new = "%s.slice_to(%s)" % (recv, hi)
                else:
                    new = "%s.slice_all()" % recv
                if not amp:
                    # un-borrowed slice expression (e.g. method call on it): keep as is
                    pass
            self.note("R6", scope, text[mt.start():cl + 1], new)
            text = text[:mt.start()] + new + text[cl + 1:]
            pos = mt.start() + len(new)


def _decode_bytestr(lit):
    out = []
    i = 0
    esc = {"n": 10, "r": 13, "t": 9, "\\": 92, "0": 0, "'": 39, '"': 34}
    while i < len(lit):
        c = lit[i]
        if c == "\\":
            d = lit[i + 1]
            if d == "x":
                out.append(int(lit[i + 2:i + 4], 16))
                i += 4
            elif d == "\n":
                i += 2
                while i < len(lit) and lit[i] in " \t\n":
                    i += 1
            elif d in esc:
                out.append(esc[d])
                i += 2
            else:
                raise Undecided("unsupported escape in byte string: %r" % lit)
        else:
            out.append(ord(c))
            i += 1
    return out


def _split_range(inner):
    m = rl.mask(inner)
    d = 0
    for i, c in enumerate(m):
        if c in "([{":
            d += 1
        elif c in ")]}":
            d -= 1
        elif d == 0 and m.startswith("..", i):
            incl = m.startswith("..=", i)
            lo = inner[:i].strip()
            hi = inner[i + (3 if incl else 2):].strip()
            return lo, hi, incl
    return None


# --------------------------------------------------------------------------------------------
# emission
# --------------------------------------------------------------------------------------------
class Emitter:
    def __init__(self):
        self.lines = []

    def add(self, text):
        start = len(self.lines) + 1
        self.lines.extend(text.split("\n"))
        return start, len(self.lines)

    def text(self):
        return "\n".join(self.lines) + "\n"


class Unit:
    """Result of an extraction."""

    def __init__(self):
        self.text = ""
        self.clause_lines = []   # (start_line, end_line, qual, label, kind)
        self.fn_lines = {}       # qual -> (start, end)
        self.fn_src = {}         # qual -> (rel, start_line, end_line)
        self.obligations = []    # names
        self.rewrites = []
        self.diff = ""
        self.exec_fns = []
        self.proof_fns = []
        self.external_fns = []
        self.loops = {}          # qual -> number of loops found in body


def loops_in(body_mask):
    """indices of loop keywords in a fn body mask, in textual order, with their body-open index."""
    out = []
    for mt in re.finditer(r"(?<![\w'])(loop|while|for)\b", body_mask):
        kw = mt.group(1)
        j = mt.end()
        if kw == "for":
            # skip `for<'a>` HRTB and `impl .. for ..`
            rest = body_mask[j:j + 200]
            if re.match(r"\s*<", rest):
                continue
            if not re.match(r"\s+[^;{]*?\bin\b", rest):
                continue
        # body open: first '{' at paren depth 0
        d = 0
        k = j
        found = None
        while k < len(body_mask):
            c = body_mask[k]
            if c in "([":
                k = rl.match_close(body_mask, k)
            elif c == "{":
                found = k
                break
            elif c == ";":
                break
            k += 1
        if found is not None:
            out.append((mt.start(), found))
    return out


def build(unit_path, mode="verify"):
    """mode: verify | vac_fn (assert(false) at every contracted fn entry) | vac_loop (at loop bodies)"""
    u = parse_unit(unit_path)
    res = Unit()
    res.spec = u
    rw = Rewriter(u)
    srcs = {k: Source(v) for k, v in u.sources.items()}
    outside = []   # macro_rules, before verus!
    em = Emitter()
    em.add("// GENERATED by /verif/tools/extract.py from /repo working tree -- unit %s (%s)" % (u.name, mode))
    em.add("#![allow(unused, non_snake_case, non_camel_case_types, unreachable_patterns, unreachable_code)]")
    if "collections" in u.shims:
        em.add("#![feature(allocator_api)]   // only so that the VecDeque::is_empty specification can name the allocator parameter")
    em.add("use vstd::prelude::*;")
    # macros first (outside verus!)
    for d in u.seq:
        if d[0] == "macro":
            s = srcs[d[1]]
            a, e = s.find_macro(d[2])
            t = rw.apply(d[2], s.text[a:e])
            em.add(t)
    shim_out = []
    shim_in = []
    for sh in u.shims:
        p = os.path.join(VERIF, "shims", sh + ".rs")
        if not os.path.exists(p):
            raise Undecided("shim %s missing" % sh)
        t = open(p).read()
        if "// @inside" in t:
            o, _, ins = t.partition("// @inside")
            shim_out.append(o)
            shim_in.append(ins)
        else:
            shim_in.append(t)
    for t in shim_out:
        em.add(t)
    em.add("verus! {")
    em.add("global size_of usize == 8;   // assumption: 64-bit target (the test suite's target)")
    for t, sh in zip(shim_in, u.shims):
        em.add("// ---- shim prelude: %s (assumed contracts on dependencies) ----" % sh)
        em.add(t)
    diffs = []
    for d in u.seq:
        if d[0] == "macro":
            continue
        if d[0] == "spec":
            a, b = em.add(d[1])
            continue
        if d[0] == "item":
            _, sk, kind, name, opts = d
            s = srcs[sk]
            a, e = s.find_item(kind, name, int(opts.get("depth", 0)))
            body = s.text[a:e]
            attrs = s.attrs_before(a)
            derive = None
            for at in attrs:
                mt = re.match(r"#\[derive\((.*)\)\]", at)
                if mt:
                    derive = [x.strip() for x in mt.group(1).split(",") if x.strip()]
            if "derive" in opts:
                derive = [x for x in opts["derive"].split(",") if x]
            elif derive is not None:
                derive = [x for x in derive if x in ("Clone", "Copy", "PartialEq", "Eq", "Debug")]
            new = _strip_inner_attrs(_apply_cfg(_drop_docs(body), u.features, rw, name))
            new = _pubify_fields(new) if kind == "struct" else new
            new = rw.apply(name, new)
            if kind == "struct" and name in u.fields:
                got = _struct_fields(new)
                if got != u.fields[name]:
                    raise Undecided("struct %s fields changed: contract knows %s, source has %s" % (name, u.fields[name], got))
            head = ""
            if derive:
                head = "#[derive(%s)]\n" % ", ".join(derive)
            for a2 in u.attrs.get(name, []):
                head += a2 + "\n"
            em.add(head + "pub " + new)
            diffs.append((s.rel, name, body, new))
            continue
        if d[0] == "fns":
            _, sk, header, names = d
            s = srcs[sk]
            keep_trait = False
            if header.startswith("keep "):
                keep_trait = True
                header = header[5:].strip()
            free = header == "free"
            self_subst = {}
            impl_head = None
            if not free:
                # find one fn to obtain the header text; collect `type X = Y;` lines for Self::X
                pass
            fn_texts = []
            for fname in names:
                if free:
                    at = s.find_free_fn(fname)
                    qual = fname
                else:
                    h, at, ib, ie = s.find_impl_fn(header, fname)
                    impl_head = h
                    tyname = _impl_type_name(h)
                    qual = "%s::%s" % (tyname, fname)
                    for mt in re.finditer(r"\btype\s+(\w+)\s*=\s*([^;]+);", s.mask[ib:ie]):
                        if rl.depth_delta(s.mask, ib, ib + mt.start()) == 1:
                            self_subst["Self::" + mt.group(1)] = s.text[ib + mt.start(2):ib + mt.end(2)].strip()
                st, sig, bo, bc = s.fn_parts(at)
                body = s.text[bo:bc + 1]
                orig = s.text[st:bc + 1]
                res.fn_src[qual] = (s.rel, s.line(st), s.line(bc))
                fn_texts.append((qual, fname, sig, body, orig, s.rel))
            # emit
            if free:
                for (qual, fname, sig, body, orig, rel) in fn_texts:
                    self_emit_fn(em, res, u, rw, qual, sig, body, orig, rel, {}, mode, diffs, indent="")
            else:
                tyn = _impl_type_name(impl_head)
                if tyn in u.cover:
                    rw.note("R8", "impl:" + tyn, _norm(impl_head), u.cover[tyn])
                    impl_head = u.cover[tyn]
                impl_head = rw.apply("impl:" + tyn, impl_head)
                ih = _norm(impl_head) if keep_trait else _emit_impl_header(impl_head)
                em.add(ih + " {")
                if keep_trait:
                    for k, v in self_subst.items():
                        em.add("    type %s = %s;" % (k.split("::")[1], v))
                    self_subst = {}
                for (qual, fname, sig, body, orig, rel) in fn_texts:
                    self_emit_fn(em, res, u, rw, qual, sig, body, orig, rel, self_subst, mode, diffs, indent="    ", vis="" if keep_trait else "pub ")
                em.add("}")
            continue
    em.add("} // verus!")
    em.add("fn main() {}")
    res.text = em.text()
    res.rewrites = rw.log
    res.diff = _mkdiff(diffs)
    # obligations
    for q in res.exec_fns:
        res.obligations.append("%s::%s::safety" % (u.name, q))
    for (a, b, q, label, kind) in res.clause_lines:
        ob = "%s::%s::%s" % (u.name, q, label)
        if ob not in res.obligations:
            res.obligations.append(ob)
    # proof fns / lemmas in spec blocks
    for mt in re.finditer(r"\bproof\s+fn\s+(\w+)", rl.mask(res.text)):
        res.proof_fns.append(mt.group(1))
        res.obligations.append("%s::lemma::%s" % (u.name, mt.group(1)))
    # fn line ranges for proof fns and spec fns
    _index_spec_fns(res)
    # checks: every clause target exists
    for q in u.fn_clauses:
        if q not in res.fn_lines:
            raise Undecided("contract for %s but the function is not extracted" % q)
    for (q, k) in u.loop_clauses:
        if q not in res.fn_lines:
            raise Undecided("loop contract for %s but the function is not extracted" % q)
    return res


def _index_spec_fns(res):
    m = rl.mask(res.text)
    for mt in re.finditer(r"\b(proof|spec)\s+fn\s+(\w+)", m):
        j = mt.end()
        # find body open (skip requires/ensures which may contain braces in ({ }) -- approximate:
        # body is the first '{' at depth 0 that follows a newline-or-space and is not inside parens)
        k = j
        b = None
        while k < len(m):
            c = m[k]
            if c in "([":
                k = rl.match_close(m, k)
            elif c == "{":
                b = k
                break
            elif c == ";":
                break
            k += 1
        if b is None:
            continue
        # requires/ensures blocks of proof fns use `({` inside parens only; a match/if in a clause would break this,
        # so take the LAST top-level brace group before the next item instead: walk groups until next `fn`/EOF
        e = rl.match_close(m, b)
        while True:
            nxt = re.match(r"\s*\{", m[e + 1:])
            if nxt:
                b = e + 1 + nxt.end() - 1
                e = rl.match_close(m, b)
            else:
                break
        name = ("lemma::" if mt.group(1) == "proof" else "spec::") + mt.group(2)
        res.fn_lines.setdefault(name, (rl.line_of(res.text, mt.start()), rl.line_of(res.text, e)))


def _impl_type_name(h):
    hh = re.sub(r"\bwhere\b.*$", "", h, flags=re.S)
    prev = None
    while prev != hh:
        prev = hh
        hh = re.sub(r"<[^<>]*>", "", hh)
    toks = hh.replace("unsafe ", "").split()
    if toks[0] == "trait":
        return toks[1].rstrip(":")
    if "for" in toks:
        return toks[toks.index("for") + 1]
    return toks[1]


def _emit_impl_header(h):
    # R8: trait impl -> inherent impl ; trait -> impl on the instantiating type is handled by header given in unit
    hh = _norm(h)
    mt = re.match(r"^(unsafe\s+)?impl(\s*<.*?>)?\s+(.*?)\s+for\s+(.*)$", hh)
    if mt:
        return "impl%s %s" % (mt.group(2) or "", mt.group(4))
    return hh


def _drop_docs(t):
    out = []
    for ln in t.split("\n"):
        s = ln.strip()
        if s.startswith("///") or s.startswith("//!"):
            continue
        if re.match(r"#\[(inline|allow|doc|must_use|cfg_attr|deprecated|non_exhaustive)\b.*\]$", s):
            continue
        out.append(ln)
    return "\n".join(out)


def _apply_cfg(t, features, rw, scope):
    """R10: `#[cfg(feature = "x")]` / `#[cfg(not(feature = "x"))]` on a field/statement: keep or drop the
    following line-item according to the unit's feature set."""
    lines = t.split("\n")
    out = []
    i = 0
    while i < len(lines):
        s = lines[i].strip()
        mt = re.match(r'#\[cfg\((not\()?feature\s*=\s*"([^"]+)"\)?\)\]$', s)
        if mt and i + 1 < len(lines):
            on = (mt.group(2) in features) != bool(mt.group(1))
            if on:
                out.append(lines[i + 1])
            rw.note("R10", scope, s + " " + lines[i + 1].strip(), lines[i + 1].strip() if on else "")
            i += 2
            continue
        out.append(lines[i])
        i += 1
    return "\n".join(out)


def _strip_inner_attrs(t):
    """drop #[...] attributes inside an item body (derive-helper attributes such as #[display(..)], #[error(..)])"""
    while True:
        m = rl.mask(t)
        mt = re.search(r"#\[", m)
        if not mt:
            return t
        e = rl.match_close(m, mt.end() - 1)
        t = t[:mt.start()] + t[e + 1:]


def _pubify_fields(t):
    m = rl.mask(t)
    try:
        b = m.index("{")
    except ValueError:
        return t
    e = rl.match_close(m, b)
    body = t[b + 1:e]
    out = []
    for ln in body.split("\n"):
        mm = re.match(r"^(\s*)(pub(\([^)]*\))?\s+)?(\w+\s*:.*)$", ln)
        if mm and not ln.strip().startswith("//"):
            out.append("%spub %s" % (mm.group(1), mm.group(4)))
        else:
            out.append(ln)
    return t[:b + 1] + "\n".join(out) + t[e:]


def _struct_fields(t):
    m = rl.mask(t)
    try:
        b = m.index("{")
    except ValueError:
        return []
    e = rl.match_close(m, b)
    out = []
    d = 0
    for ln in m[b + 1:e].split("\n"):
        if d == 0:
            mm = re.match(r"^\s*(?:pub(?:\([^)]*\))?\s+)?(\w+)\s*:", ln)
            if mm:
                out.append(mm.group(1))
        d += ln.count("{") + ln.count("(") + ln.count("<") - ln.count("}") - ln.count(")") - ln.count(">") + ln.count("->")
    return out


def self_emit_fn(em, res, u, rw, qual, sig, body, orig, rel, self_subst, mode, diffs, indent, vis="pub "):
    external = u.external.get(qual, False)
    # ---- signature ----
    sig = _drop_docs(sig)
    for _round in range(3):
        for k, v in self_subst.items():
            sig = re.sub(re.escape(k) + r"\b", v, sig)
            body = re.sub(re.escape(k) + r"\b", v, body)
    sig = rw.apply(qual + "#sig", sig)
    if re.search(r"\(\s*mut\s+self\s*[,)]", sig):
        # R21: by-value `mut self` is not supported by Verus: bind it to a mutable local of another name
        sig = re.sub(r"\(\s*mut\s+self(\s*[,)])", r"(self\1", sig)
        bm0 = rl.mask(body)
        outb = []
        last = 0
        for mt in re.finditer(r"\bself\b", bm0):
            outb.append(body[last:mt.start()] + "self__")
            last = mt.end()
        outb.append(body[last:])
        body = "".join(outb)
        body = "{ let mut self__ = self;" + body[1:]
        rw.note("R21", qual, "mut self", "self + `let mut self__ = self;` (body occurrences renamed)")
    rname = u.sigs.get(qual, "r")
    sig_new = _name_result(sig, rname)
    # ---- R9b: lift the (single) `async move { .. }` block of this fn into a separate fn ----
    lifted = None
    for (lq, call, sigtxt) in u.no_unwind:
        if lq != qual:
            continue
        bm0 = rl.mask(body)
        mt = re.search(r"\basync\s+move\s*\{", bm0)
        if not mt or len(re.findall(r"\basync\s+move\s*\{", bm0)) != 1:
            raise Undecided("@lift %s: expected exactly one `async move {` block" % qual)
        bo = bm0.index("{", mt.start())
        bc = rl.match_close(bm0, bo)
        blk = body[bo:bc + 1]
        body = body[:mt.start()] + call + body[bc + 1:]
        lname = re.search(r"fn\s+(\w+)", sigtxt).group(1)
        lifted = (lname, sigtxt, blk)
        rw.note("R9b", qual, "async move { ... }", "%s  (block lifted verbatim into fn %s)" % (call, lname))
    # ---- body ----
    new_body = rw.apply(qual, body)
    bm = rl.mask(new_body)
    loops = loops_in(bm)
    res.loops[qual] = len(loops)
    inserts = []  # (idx, text, clause-records)
    for (q, k), cls in u.loop_clauses.items():
        if q != qual:
            continue
        if k < 1 or k > len(loops):
            raise Undecided("loop ordinal %d out of range in %s (%d loops)" % (k, qual, len(loops)))
        inserts.append((loops[k - 1][1], ("loop", k, cls)))
    for (q, where, anchor, txt, glabel) in u.ghosts:
        if q != qual:
            continue
        if where == "body-start":
            inserts.append((1, ("raw", txt, glabel)))
            continue
        if where == "body-end":
            inserts.append((len(new_body) - 1, ("raw", txt, glabel)))
            continue
        n = new_body.count(anchor)
        kth, want = 1, 1
        if "#" in where:       # before#k/n: the k-th of exactly n occurrences
            where, kn = where.split("#")
            kth, want = (int(x) for x in kn.split("/"))
        if n != want:
            raise Undecided("lost anchor: @ghost %s `%s` occurs %d times in %s (expected %d)" % (where, anchor[:50], n, qual, want))
        at = -1
        for _ in range(kth):
            at = new_body.index(anchor, at + 1)
        inserts.append((at if where == "before" else at + len(anchor), ("raw", txt, glabel)))
    if mode.startswith("vac_loop"):
        want = int(mode.split(":")[1]) if ":" in mode else None
        for li, (kwi, bo) in enumerate(loops):
            if want is None or want == li + 1:
                inserts.append((bo + 1, ("raw", " assert(false); ")))
    if mode == "vac_fn" and not external:
        inserts.append((1, ("raw", " assert(false); ")))
    inserts.sort(key=lambda x: x[0])
    # build body with recorded line positions
    pieces = []
    last = 0
    for idx, what in inserts:
        pieces.append(("src", new_body[last:idx]))
        pieces.append(what)
        last = idx
    pieces.append(("src", new_body[last:]))
    # ---- emit ----
    start_line = len(em.lines) + 1
    for a in u.attrs.get(qual, []):
        em.add(indent + a)
    if external:
        em.add(indent + "#[verifier::external_body]")
        res.external_fns.append(qual)
    else:
        res.exec_fns.append(qual)
    em.add(indent + vis + sig_new.strip())
    cls = u.fn_clauses.get(qual, [])
    for kind in ("requires", "ensures", "returns"):
        ks = [c for c in cls if c.kind == kind]
        if not ks:
            continue
        em.add(indent + "    " + kind)
        for c in ks:
            a, b = em.add(_indent(c.text, indent + "        ") + ",")
            res.clause_lines.append((a, b, qual, c.label, kind))
    dec = [c for c in cls if c.kind == "decreases"]
    for c in dec:
        em.add(indent + "    decreases " + c.text + ",")
    # body pieces
    cur = ""
    for p in pieces:
        if p[0] == "src":
            cur += p[1]
        elif p[0] == "raw":
            if mode == "verify" and p[1].strip() != "assert(false);":
                # emit on own lines so failures inside contract-file proof hints can be named
                if cur:
                    em.add(indent + cur)
                    cur = ""
                a, b = em.add(p[1])
                res.clause_lines.append((a, b, qual, (p[2] if len(p) > 2 and p[2] else "proof_hints"), "ghost"))
            else:
                cur += "\n" + p[1] + "\n"
        elif p[0] == "loop":
            # flush current text, then emit clauses on their own lines
            if cur:
                em.add(indent + cur if not em.lines or True else cur)
                cur = ""
            _, k, lcls = p
            for kind in ("invariant_except_break", "invariant", "ensures"):
                ks = [c for c in lcls if c.kind == kind]
                if not ks:
                    continue
                em.add(indent + "        " + kind)
                for c in ks:
                    ctext = c.text
                    mu = re.match(r"\s*@uses\((\w+)\)\s*", ctext)
                    if mu:
                        # an invariant about a local the function may not have (e.g. the tree before a repair): without the
                        # local the clause degenerates to `true`, so the loss shows up as the failing postcondition, not as a compile error
                        ctext = ctext[mu.end():] if re.search(r"\b%s\b" % re.escape(mu.group(1)), new_body) else "true"
                    a, b = em.add(_indent(ctext, indent + "            ") + ",")
                    res.clause_lines.append((a, b, qual, "loop%d_%s" % (k, c.label), kind))
            for c in lcls:
                if c.kind == "decreases":
                    em.add(indent + "        decreases " + c.text + ",")
    if cur:
        em.add(indent + cur)
    end_line = len(em.lines)
    res.fn_lines[qual] = (start_line, end_line)
    diffs.append((rel, qual, orig, "\n".join(em.lines[start_line - 1:end_line])))
    if lifted is not None:
        lname, sigtxt, blk = lifted
        lq2 = qual.rsplit("::", 1)[0] + "::" + lname if "::" in qual else lname
        saved = u.no_unwind
        u.no_unwind = []
        self_emit_fn(em, res, u, rw, lq2, sigtxt, blk, blk, rel, {}, mode, diffs, indent, vis="pub ")
        u.no_unwind = saved
        res.fn_src[lq2] = res.fn_src.get(qual, (rel, 0, 0))


def _indent(t, ind):
    return "\n".join(ind + ln.strip() if i == 0 else ind + ln.rstrip() for i, ln in enumerate(t.split("\n")))


def _name_result(sig, rname):
    m = rl.mask(sig)
    # find the parameter list: first '(' after fn name/generics
    j = m.index("(") if "<" not in m[:m.index("(")] else None
    if j is None:
        # generics present: skip the <...> group (angle matching by counting, ignoring '->')
        k = m.index("<")
        d = 0
        while k < len(m):
            if m[k] == "<":
                d += 1
            elif m[k] == ">" and m[k - 1] != "-":
                d -= 1
                if d == 0:
                    break
            k += 1
        j = m.index("(", k)
    e = rl.match_close(m, j)
    rest = sig[e + 1:]
    rm = m[e + 1:]
    mt = re.match(r"\s*->\s*", rm)
    if not mt:
        return sig
    wh = re.search(r"\bwhere\b", rm)
    ty_end = wh.start() if wh else len(rm)
    ty = rest[mt.end():ty_end].strip()
    if ty.startswith("(") and re.match(r"\(\s*\w+\s*:", ty):
        return sig
    tail = rest[ty_end:]
    return sig[:e + 1] + " -> (%s: %s)" % (rname, ty) + ((" " + tail.strip()) if tail.strip() else "")


def _mkdiff(diffs):
    out = []
    for rel, name, a, b in diffs:
        al = [x.rstrip() for x in a.split("\n")]
        bl = [x.rstrip() for x in b.split("\n")]
        out.extend(difflib.unified_diff(al, bl, "repo:%s::%s" % (rel, name), "verified::%s" % name, lineterm="", n=2))
    return "\n".join(out) + "\n"


if __name__ == "__main__":
    r = build(sys.argv[1], sys.argv[2] if len(sys.argv) > 2 else "verify")
    sys.stdout.write(r.text)
