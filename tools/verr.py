#!/usr/bin/env python3
"""print rendered verus errors of build/<unit>/verus.stderr (dev helper)"""
import json, sys
n = 0
for l in open('/verif/build/%s/verus.stderr' % sys.argv[1]):
    if l.startswith('{'):
        d = json.loads(l)
        if d['level'] == 'error' and not d['message'].startswith('aborting'):
            n += 1
            print(d['rendered'][:int(sys.argv[2]) if len(sys.argv) > 2 else 1200])
print("errors:", n)
