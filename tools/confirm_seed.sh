#!/bin/bash
# tools/confirm_seed.sh <worktree> <A|B> <crate> [extra cargo test args]
# Confirms a seeded change independently: existing tests pass with the patch, demo fails with it, passes without.
wt=$1; v=$2; crate=$3; shift 3
out=$wt/_out/$v
log=$out/confirm.log
cd $wt || exit 9
export CARGO_TARGET_DIR=$wt/target
git checkout -q -- . ; git clean -fdq -e _out -e target
{
echo "== apply patch"; git apply $out/patch.diff || echo "APPLY-PATCH-FAILED"
echo "== existing tests with patch"
timeout 3000 cargo test -p $crate --offline --all-features --no-fail-fast "$@" -- --skip test_slow_request 2>&1 | grep -E "^test result|FAILED|failed|error(\[|:)" | head -40
echo "== demo with patch (expect FAIL)"
git apply $out/demo.diff || echo "APPLY-DEMO-FAILED"
demo_tests=$(grep -E '^\+\+\+ b/.*tests/.*\.rs' $out/demo.diff | sed 's#.*/tests/\(.*\)\.rs#\1#' | head -1)
if [ -n "$demo_tests" ]; then sel="--test $demo_tests"; else sel="--lib"; fi
echo "selector: $sel"
cargo test -p $crate --offline --all-features $sel 2>&1 | grep -E "^test |^test result" | grep -v "\.\.\. ok" | head -20
echo "== demo without patch (expect PASS)"
git apply -R $out/patch.diff
cargo test -p $crate --offline --all-features $sel 2>&1 | grep -E "^test result|FAILED" | head -20
git checkout -q -- . ; git clean -fdq -e _out -e target
echo "== done"
} > $log 2>&1
