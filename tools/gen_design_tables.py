#!/usr/bin/env python3
"""Splices generated tables into DESIGN.md between <!-- BEGIN GENERATED: x --> / <!-- END GENERATED: x --> markers."""
import json, os, re, sys
HERE = os.path.dirname(os.path.dirname(os.path.abspath(__file__)))
sys.path.insert(0, os.path.join(HERE, "tools"))
import props

titles = {}
for l in open(os.path.join(HERE, "properties.jsonl")):
    p = json.loads(l)
    titles[p["id"]] = p["title"]
ALL = ["C%02d" % i for i in range(1, 20)]


def sec_properties():
    out = []
    for pid in ALL:
        if pid not in props.PROPS:
            continue
        P = props.PROPS[pid]
        out.append("### %s — %s  (claimed, level: proof)\n" % (pid, titles[pid]))
        out.append("*Deciding method.* %s\n" % P["technique"])
        out.append("*What is proved.* %s\n" % P["level_text"])
        if P["units"]:
            out.append("*Verus units.* " + ", ".join("`units/%s.vc`" % u for u in P["units"]) + "\n")
        if P.get("kani"):
            out.append("*Kani harnesses.* " + "; ".join("`%s` (%s%s)" % (h["harness"], h["kind"], ", thorough tier only" if not h.get("quick", True) else "") for h in P["kani"]) + "\n")
        if P.get("native_bounded"):
            out.append("*Native bounded harnesses (a stated-bound stand-in on the real crates, section 2.6b; never counted as proved).* " + " ".join("`%s` (families %s): %s." % (h["dir"], ", ".join(h.get("families", [])), h["bound"]) for h in P["native_bounded"]) + "\n")
        out.append("*Assumed / trusted.* %s\n" % P["level_note"])
        if P.get("assumptions"):
            out.append("*Preconditions assumed of callers.* " + "; ".join(P["assumptions"]) + "\n")
        if P.get("not_decided"):
            out.append("*Not decided.*\n" + "\n".join("  - %s" % x for x in P["not_decided"]) + "\n")
    return "\n".join(out)


def sec_na():
    out = ["`not_applicable` in MANIFEST.json:\n"]
    for pid in ALL:
        if pid not in props.PROPS:
            out.append("* **%s — %s**: %s" % (pid, titles[pid], props.NOT_APPLICABLE[pid]))
    return "\n".join(out) + "\n"


def sec_findings():
    k = json.load(open(os.path.join(HERE, "known_findings.json")))
    out = ["| status | property | obligation | what | demonstration / commit |", "|---|---|---|---|---|"]
    for f in k["findings"]:
        what = f["what"] if f["status"] == "known" else f["line"].split(" ", 3)[-1]
        extra = f.get("commit", "") if f["status"] == "fixed" else ("not repaired: " + f.get("why_not_fixed", ""))
        if f["status"] == "fixed":
            extra = "`fix:` commit %s; %s" % (f.get("commit"), f.get("what", ""))
        out.append("| %s | %s | `%s` | %s | %s |" % (f["status"], f["property"], f["obligation"], what.replace("|", "\\|"), extra.replace("|", "\\|")))
    return "\n".join(out) + "\n"


def sec_seeds():
    root = os.path.join(HERE, "seeded")
    out = ["| seed | what it needs to manifest | result of `./check <property>` with the change applied |", "|---|---|---|"]
    for d in sorted(os.listdir(root)):
        mp = os.path.join(root, d, "meta.json")
        if not os.path.exists(mp):
            continue
        m = json.load(open(mp))
        oc = m.get("check_outcome")
        if oc is None:
            res = "(not yet run)"
        elif oc.get("exit") == 1:
            obs = re.findall(r"obligation=(\S+)", oc["lines"])
            res = "**detected**: VIOLATION " + ", ".join("`%s`" % o for o in obs[:3])
        elif oc.get("exit") == 2:
            res = "undecided (exit 2): " + oc["lines"][:160]
        elif oc.get("exit") == 0:
            res = "**not detected** (exit 0)" + ((": " + m["miss_reason"]) if m.get("miss_reason") else "")
        else:
            res = oc["lines"][:160]
        if m.get("note"):
            res += " — " + m["note"]
        out.append("| %s | %s | %s |" % (d, m["needs_to_manifest"].replace("|", "\\|"), res.replace("|", "\\|")))
    return "\n".join(out) + "\n"


def main():
    p = os.path.join(HERE, "DESIGN.md")
    t = open(p).read()
    for name, fn in (("properties", sec_properties), ("not_applicable", sec_na), ("findings", sec_findings), ("seeds", sec_seeds)):
        a = "<!-- BEGIN GENERATED: %s -->" % name
        b = "<!-- END GENERATED: %s -->" % name
        i, j = t.index(a) + len(a), t.index(b)
        t = t[:i] + "\n" + fn() + t[j:]
    open(p, "w").write(t)
    print("DESIGN.md tables regenerated")


if __name__ == "__main__":
    main()
