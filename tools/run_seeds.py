#!/usr/bin/env python3
"""Apply each seeded change to /repo, run the property's quick check, undo; record the outcome in meta.json."""
import json, os, subprocess, sys
only = sys.argv[1:]
root = "/verif/seeded"
rows = []
for d in sorted(os.listdir(root)):
    if only and not any(d.startswith(o) for o in only):
        continue
    sd = os.path.join(root, d)
    meta = json.load(open(os.path.join(sd, "meta.json")))
    pid = meta["property"]
    patch = os.path.join(sd, "patch_on_repaired_tree.diff")
    if not os.path.exists(patch):
        patch = os.path.join(sd, "patch.diff")
    subprocess.run(["git", "-C", "/repo", "checkout", "--", "."], check=True)
    ap = subprocess.run(["git", "-C", "/repo", "apply", patch], capture_output=True, text=True)
    if ap.returncode != 0:
        outcome = "patch does not apply: " + ap.stderr.strip()[:200]
        rc = None
    else:
        try:
            p = subprocess.run(["./check", pid], cwd="/verif", capture_output=True, text=True, timeout=3600)
            rc = p.returncode
            lines = [l for l in p.stdout.split("\n") if l.startswith("VIOLATION") or l.startswith("UNDECIDED")]
            outcome = "; ".join(l[:260] for l in lines) if lines else "no alarm (exit %d)" % rc
        finally:
            subprocess.run(["git", "-C", "/repo", "checkout", "--", "."], check=True)
    meta["check_outcome"] = {"patch": os.path.basename(patch), "exit": rc, "lines": outcome}
    meta["detected_by"] = outcome if rc == 1 else None
    json.dump(meta, open(os.path.join(sd, "meta.json"), "w"), indent=1)
    rows.append((d, rc, outcome[:200]))
    print(d, rc, outcome[:200])
