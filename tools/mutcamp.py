#!/usr/bin/env python3
"""Development aid (not a registered check): mutation campaign against the contracts of one property.

tools/mutcamp.py <Cxx> [N] [seed]  -- picks N random single-token mutants inside the source lines of the functions under
contract (from evidence/<Cxx>.json), applies each to /repo, runs `./check <Cxx>`, undoes it, and prints
killed (exit 1) / survived (exit 0) / undecided (exit 2).  Survivors are either equivalent mutants or contract gaps."""
import json, os, random, re, subprocess, sys
pid = sys.argv[1]; N = int(sys.argv[2]) if len(sys.argv) > 2 else 12; seed = int(sys.argv[3]) if len(sys.argv) > 3 else 1
VERIF = os.path.dirname(os.path.dirname(os.path.abspath(__file__)))
REPO = os.environ.get("VERIF_REPO", "/repo")
ev = json.load(open(os.path.join(VERIF, "evidence/%s.json" % pid)))
fns = [f for f in ev["coverage"]["functions_under_contract"] if f.get("mode") == "exec" and f.get("file") and f.get("lines") and f["lines"][1] > f["lines"][0] and f["file"].endswith(".rs")]
OPS = [(r" < ", " <= "), (r" <= ", " < "), (r" > ", " >= "), (r" >= ", " > "), (r" == ", " != "), (r" != ", " == "), (r" && ", " || "), (r" \|\| ", " && "),
       (r"\btrue\b", "false"), (r"\bfalse\b", "true"), (r" \+ 1\b", " + 2"), (r" - 1\b", " - 2"), (r"\+= ", "-= "), (r"!self\.", "self."), (r"!this\.", "this."),
       (r"\.is_some\(\)", ".is_none()"), (r"\.is_none\(\)", ".is_some()"), (r"\.is_empty\(\)", ".is_empty() == false")]
if os.environ.get("MUT_UNIT"):
    fns = [f for f in fns if f.get("unit") in os.environ["MUT_UNIT"].split(",")]
cands = []
for f in fns:
    path = os.path.join(REPO, f["file"])
    if not os.path.exists(path):
        continue
    lines = open(path).read().split("\n")
    for ln in range(f["lines"][0] - 1, min(f["lines"][1], len(lines))):
        t = lines[ln]
        if t.strip().startswith("//") or "trace!" in t or "debug_assert" in t or "error!(" in t:
            continue
        for k, (rx, new) in enumerate(OPS):
            for m in re.finditer(rx, t):
                cands.append((f["file"], ln, m.start(), m.end(), new, f["name"], "delete" if False else "op%d" % k))
        s = t.strip()
        if re.match(r"^(self|this|\*this|inner|buf|dst|payload)\b.*;\s*$", s) and "let " not in s and "return" not in s and s.count("(") == s.count(")"):
            cands.append((f["file"], ln, None, None, None, f["name"], "delete"))
random.Random(seed).shuffle(cands)
res = {"killed": 0, "survived": 0, "undecided": 0}
seen = set()
done = 0
for (file, ln, a, b, new, fn, kind) in cands:
    if done >= N:
        break
    if (file, ln) in seen:
        continue
    seen.add((file, ln))
    path = os.path.join(REPO, file)
    orig = open(path).read()
    lines = orig.split("\n")
    old = lines[ln]
    if kind == "delete":
        lines[ln] = re.match(r"^\s*", old).group(0) + "// (deleted)"
    else:
        lines[ln] = old[:a] + new + old[b:]
    open(path, "w").write("\n".join(lines))
    try:
        p = subprocess.run(["./check", pid], cwd=VERIF, capture_output=True, text=True, timeout=3600)
        rc = p.returncode
    finally:
        open(path, "w").write(orig)
    out = {1: "killed", 0: "survived", 2: "undecided"}.get(rc, "rc%d" % rc)
    res[out] = res.get(out, 0) + 1
    done += 1
    why = ""
    if rc == 1:
        m = re.search(r"obligation=(\S+)", p.stdout); why = m.group(1).split("::", 1)[1] if m else ""
    elif rc == 2:
        m = re.search(r"UNDECIDED property=\S+ (.*)", p.stdout); why = (m.group(1)[:110] if m else "")
    print("%-9s %s:%d %s  [%s]\n           - %s\n           + %s   %s" % (out, file, ln + 1, fn, kind, old.strip()[:100], lines[ln].strip()[:100], why))
    sys.stdout.flush()
print(res)
subprocess.run(["git", "-C", REPO, "status", "--short"])
