#!/usr/bin/env python3
"""Bounded native harnesses: a small crate that links the REAL crate from the repository's working tree and checks it
exhaustively over a small, stated input space against reference functions written from the property statement.
A stand-in where no contract reaches (regex construction, byte scanners with slice patterns); always labelled bounded,
never counted as proved.  Output protocol of a harness binary: `BOUNDED-OK <family> cases=<n>` /
`BOUNDED-FAIL <family> input=<..> expected=<..> got=<..>`."""
import os, re, shutil, subprocess, time

VERIF = os.path.dirname(os.path.dirname(os.path.abspath(__file__)))
REPO = os.environ.get("VERIF_REPO", "/repo")


def run(pid, spec, tier="quick"):
    """spec: {"name", "dir", "crate_path", "bound", "timeout"} -> dict(status, families, cmd, wall_s, output)"""
    src = os.path.join(VERIF, spec["dir"])
    work = os.path.join(VERIF, "build", "native", "%s__%s" % (spec["name"], pid))     # per property: two checks may run at the same time
    shutil.rmtree(work, ignore_errors=True)
    os.makedirs(os.path.join(work, "src"))
    shutil.copy(os.path.join(src, "src", "main.rs"), os.path.join(work, "src", "main.rs"))
    toml = open(os.path.join(src, "Cargo.toml")).read().replace("/repo/", REPO.rstrip("/") + "/")
    open(os.path.join(work, "Cargo.toml"), "w").write(toml)
    lock = os.path.join(REPO, "Cargo.lock")
    if os.path.exists(lock):
        shutil.copy(lock, os.path.join(work, "Cargo.lock"))
    env = dict(os.environ, VERIF_HARNESS_TIER=tier, CARGO_NET_OFFLINE="true", CARGO_TARGET_DIR=os.path.join(VERIF, "build", "harness_target"))
    cmd = ["cargo", "run", "--offline", "--release", "--quiet"]
    t0 = time.time()
    try:
        p = subprocess.run(cmd, cwd=work, env=env, capture_output=True, text=True, timeout=spec.get("timeout", 900))
        out, rc = p.stdout + "\n" + p.stderr, p.returncode
    except subprocess.TimeoutExpired:
        out, rc = "timeout", None
    wall = time.time() - t0
    fams = []
    for m in re.finditer(r"^BOUNDED-(OK|FAIL) (\S+) (.*)$", out, re.M):
        fams.append({"family": m.group(2), "ok": m.group(1) == "OK", "detail": m.group(3)})
    if rc is None or (not fams) or (rc not in (0, 1)) or (rc == 1 and all(f["ok"] for f in fams)):
        status = "undecided"     # did not build / crashed / timed out: cannot decide, never an alarm
    else:
        status = "ok" if all(f["ok"] for f in fams) else "failed"
    return {"name": spec["name"], "status": status, "families": fams, "cmd": "(cd %s && cargo run --offline --release)   # harness source: %s" % (work, spec["dir"]),
            "wall_s": round(wall, 1), "output_tail": out[-3000:], "bound": spec["bound"]}
