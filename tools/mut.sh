#!/bin/sh
# dev helper: tools/mut.sh <prop> <file> <sed-expr>   -- apply a mutation to /repo, run the check, revert
prop=$1; file=$2; expr=$3
cd /repo && sed -i "$expr" "$file" && git diff --stat | head -3
cd /verif && ./check $prop; echo "rc=$?"
git -C /repo checkout -- .
