#!/usr/bin/env python3
"""Regenerates /verif/MANIFEST.json from tools/props.py (so the two never drift)."""
import json, os, sys
HERE = os.path.dirname(os.path.dirname(os.path.abspath(__file__)))
sys.path.insert(0, os.path.join(HERE, "tools"))
import props

ALL = ["C%02d" % i for i in range(1, 20)]
checks = []
for pid in ALL:
    if pid not in props.PROPS:
        continue
    P = props.PROPS[pid]
    checks.append({
        "property_id": pid,
        "quick_cmd": "./check %s --tier quick" % pid,
        "thorough_cmd": "./check %s --tier thorough" % pid,
        "evidence_file": "/verif/evidence/%s.json" % pid,
        "replay_cmd_template": "./check %s --replay {path}" % pid,
        "engine": "verus-contracts",
        "level_claimed": {"category": "proof", "text": P["level_text"], "design_ref": "DESIGN.md section 4, %s" % pid},
        "level_note": P["level_note"] + ("" if not P.get("native_bounded") else " | BOUNDED stand-ins on the real crates for parts no contract decides (never counted as proved, reported under coverage.bounded_checks): " + " ".join("%s [%s]: %s." % (h["dir"], ", ".join(h.get("families", [])), h["bound"]) for h in P["native_bounded"])),
        "technique": P["technique"] + ("" if not P.get("native_bounded") else "; plus native bounded harnesses (exhaustive small-scope runs of the real crates against references written from the property) as stated-bound stand-ins"),
    })
na = [{"property_id": pid, "reason": props.NOT_APPLICABLE[pid]} for pid in ALL if pid not in props.PROPS]
m = {
    "version": 1,
    "setup_cmd": "./setup.sh",
    "hooks": {
        "guard": "cfg(kani) (set only by cargo kani; declared in the workspace check-cfg list together with cfg(actix_verif), which no hook uses yet)",
        "enable": "ACTIX_VERIF_DIR=/verif cargo kani -p <crate> --harness <name>  (cargo kani sets cfg(kani); the hook modules include!() the harness files from /verif/hooks)",
        "baseline_off_cmd": "cd /repo && cargo test --workspace --no-fail-fast --offline",
        "source_commits": props.HOOK_COMMITS,
        "add_only": True,
    },
    "engines": [
        {"name": "verus-contracts", "path": "/verif/check", "serves_properties": [c["property_id"] for c in checks],
         "kind_free_text": "contract-based deductive verification: Verus on functions extracted mechanically from /repo on every run (tools/extract.py), contracts in units/*.vc; Kani function-level harnesses for loop-free helpers (complete) and bounded stand-ins (labelled bounded); native bounded harnesses under harness/ (real crates, exhaustive small scope, labelled bounded) for the end-to-end parts no contract composes"},
    ],
    "checks": checks,
    "not_applicable": na,
    "notes": "exit 2 + line `UNDECIDED ...` means the check could not decide (tool limit, lost anchor, code left the verified subset); it is never an alarm.",
}
json.dump(m, open(os.path.join(HERE, "MANIFEST.json"), "w"), indent=1)
print("MANIFEST.json: %d checks, %d not_applicable" % (len(checks), len(na)))
