"""Light-weight Rust source scanner used by the extractor.

It does not parse Rust.  It produces a *mask* of a source text: a string of the same length in
which the contents of comments, string literals and char literals are replaced by spaces (newlines
are kept), so that brace matching and regex searches on the mask never look inside them.  All
slicing is then done on the original text with indices found on the mask.
"""
import re


class LexError(Exception):
    pass


def mask(src: str) -> str:
    out = list(src)
    n = len(src)
    i = 0

    def blank(a, b):
        for k in range(a, b):
            if out[k] != "\n":
                out[k] = " "

    while i < n:
        c = src[i]
        if c == "/" and i + 1 < n and src[i + 1] == "/":
            j = src.find("\n", i)
            if j < 0:
                j = n
            blank(i, j)
            i = j
        elif c == "/" and i + 1 < n and src[i + 1] == "*":
            depth = 1
            j = i + 2
            while j < n and depth > 0:
                if src.startswith("/*", j):
                    depth += 1
                    j += 2
                elif src.startswith("*/", j):
                    depth -= 1
                    j += 2
                else:
                    j += 1
            blank(i, j)
            i = j
        elif c == '"' or (c in "rb" and _raw_or_byte_string_start(src, i)):
            j = _string_end(src, i)
            # keep the delimiters' first and last char so that tokens stay separated
            blank(i + 1, j - 1)
            out[i] = '"'
            out[j - 1] = '"'
            i = j
        elif c == "'":
            # char literal or lifetime
            j = _char_end(src, i)
            if j is None:
                i += 1  # lifetime
            else:
                blank(i + 1, j - 1)
                i = j
        elif c == "b" and i + 1 < n and src[i + 1] == "'" and not _ident_char(src[i - 1] if i else " "):
            j = _char_end(src, i + 1)
            if j is None:
                i += 1
            else:
                blank(i + 2, j - 1)
                i = j
        else:
            i += 1
    return "".join(out)


def _ident_char(c):
    return c.isalnum() or c == "_"


def _raw_or_byte_string_start(src, i):
    if i > 0 and _ident_char(src[i - 1]):
        return False
    m = re.match(r'(br|rb|b|r)(#*)"', src[i:i + 40])
    if not m:
        return False
    if m.group(1) == "b" and m.group(2):
        return False
    return True


def _string_end(src, i):
    m = re.match(r'(br|rb|b|r)?(#*)"', src[i:i + 40])
    prefix = m.group(1) or ""
    hashes = m.group(2)
    j = i + m.end()
    if "r" in prefix:
        term = '"' + hashes
        k = src.find(term, j)
        if k < 0:
            raise LexError("unterminated raw string")
        return k + len(term)
    while j < len(src):
        if src[j] == "\\":
            j += 2
        elif src[j] == '"':
            return j + 1
        else:
            j += 1
    raise LexError("unterminated string")


def _char_end(src, i):
    """src[i] == "'" ; return index after closing quote if this is a char literal, else None."""
    n = len(src)
    if i + 1 >= n:
        return None
    if src[i + 1] == "\\":
        j = i + 2
        # escape: \n, \x41, \u{...}, \'
        if j < n and src[j] == "u":
            k = src.find("}", j)
            if k < 0:
                return None
            j = k + 1
        elif j < n and src[j] == "x":
            j += 3
        else:
            j += 1
        if j < n and src[j] == "'":
            return j + 1
        return None
    # 'a' : exactly one (possibly multi-byte) char then a quote
    if i + 2 < n and src[i + 2] == "'" and src[i + 1] != "'":
        return i + 3
    return None


OPEN = {"{": "}", "(": ")", "[": "]"}
CLOSE = {v: k for k, v in OPEN.items()}


def match_close(m: str, i: int) -> int:
    """m is a mask, m[i] an opening bracket; return the index of the matching closer."""
    stack = []
    j = i
    n = len(m)
    while j < n:
        c = m[j]
        if c in OPEN:
            stack.append(c)
        elif c in CLOSE:
            if not stack or stack[-1] != CLOSE[c]:
                raise LexError("bracket mismatch at %d" % j)
            stack.pop()
            if not stack:
                return j
        j += 1
    raise LexError("unclosed bracket at %d" % i)


def depth_at(m: str, upto: int, start: int = 0) -> int:
    d = 0
    for c in m[start:upto]:
        if c == "{":
            d += 1
        elif c == "}":
            d -= 1
    return d


def line_of(src: str, idx: int) -> int:
    return src.count("\n", 0, idx) + 1


def find_top_level(m: str, pattern: str, start: int, end: int, depth: int = 0):
    """Yield regex matches of pattern within m[start:end] that sit at brace depth `depth`
    relative to `start`."""
    rx = re.compile(pattern)
    d = 0
    pos = start
    for mt in rx.finditer(m, start, end):
        d += depth_delta(m, pos, mt.start())
        pos = mt.start()
        if d == depth:
            yield mt


def depth_delta(m, a, b):
    seg = m[a:b]
    return seg.count("{") - seg.count("}")
