"""Verus driver: runs the extracted unit, names failed obligations, classifies outcomes.

Outcome classes (DESIGN.md 2.5):
  ok          every obligation discharged, vacuity guards passed
  violation   an obligation that is in the baseline (discharged on the unchanged tree) now fails
  undecided   tool limits, lost anchors, code outside the verified subset, un-baselined failures
"""
import json
import os
import re
import subprocess
import sys
import time

sys.path.insert(0, os.path.dirname(__file__))
import extract  # noqa: E402
import rustlex as rl  # noqa: E402

VERIF = extract.VERIF
BUILD = os.path.join(VERIF, "build")
VERUS = os.environ.get("VERUS", "verus")

VERIFICATION_FAILURES = [
    "postcondition not satisfied",
    "precondition not satisfied",
    "invariant not satisfied",
    "assertion failed",
    "possible arithmetic underflow/overflow",
    "possible division by zero",
    "decreases not satisfied",
    "could not prove termination",
    "index out of bounds",
    "possible bit shift underflow/overflow",
    "recommendation not met",
    "constructed value may fail to meet its declared type invariant",
    "unable to prove assertion safely",
    "loop invariant not satisfied",
    "cannot show invariant holds",
    "possible truncation",
    "assertion not satisfied",
    "failed to prove",
    "unreachable!()",
    "cannot prove that call to",
    "may panic",
]
LIMIT_MSGS = ["Resource limit (rlimit) exceeded", "rlimit", "timed out", "function body check: Resource"]


def run_verus(path, rlimit=None, extra=None):
    cmd = [VERUS, path, "--output-json", "--time-expanded", "--error-format=json", "--multiple-errors", "20",
           "--no-report-long-running"]
    if rlimit:
        cmd += ["--rlimit", str(rlimit)]
    if extra:
        cmd += extra
    t0 = time.time()
    env = dict(os.environ)
    p = subprocess.run(cmd, stdout=subprocess.PIPE, stderr=subprocess.PIPE, text=True, cwd=os.path.dirname(path), env=env)
    wall = time.time() - t0
    out = None
    try:
        out = json.loads(p.stdout)
    except Exception:
        # stdout may carry non-json noise before the object
        i = p.stdout.find("{")
        if i >= 0:
            try:
                out = json.loads(p.stdout[i:])
            except Exception:
                out = None
    diags = []
    for ln in p.stderr.split("\n"):
        ln = ln.strip()
        if ln.startswith("{") and '"$message_type"' in ln:
            try:
                diags.append(json.loads(ln))
            except Exception:
                pass
    return {"cmd": " ".join(cmd), "rc": p.returncode, "json": out, "diags": diags, "stderr": p.stderr, "wall": wall}


def _is_verif_failure(msg):
    return any(k in msg for k in VERIFICATION_FAILURES)


def _is_limit(msg):
    return any(k in msg for k in LIMIT_MSGS)


class UnitResult:
    def __init__(self, name):
        self.name = name
        self.status = "ok"          # ok | failed | undecided
        self.undecided_reason = None
        self.obligations = []
        self.failed = {}            # obligation -> [detail dict]
        self.unknown = {}           # obligation -> reason (rlimit)
        self.functions = []         # [{name,file,lines,backend,smt_ms,rlimit,success}]
        self.trusted = []
        self.rewrites = []
        self.wall = 0.0
        self.smt_ms = 0
        self.cmd = ""
        self.vacuity = {}
        self.notes = []
        self.samples = []
        self.props = []


def _locate(unit, line):
    """(qual, clause_label or None) for a line of the generated file."""
    for (a, b, q, label, kind) in unit.clause_lines:
        if a <= line <= b:
            return q, label
    best = None
    for q, (a, b) in unit.fn_lines.items():
        if a <= line <= b:
            if best is None or (b - a) < (unit.fn_lines[best][1] - unit.fn_lines[best][0]):
                best = q
    return best, None


def _fn_of_json_name(unit, jname):
    # "unit::ChunkedState::read_body" -> "ChunkedState::read_body"; "unit::run" -> spec::run / lemma::x
    parts = jname.split("::")[1:]
    q = "::".join(parts)
    if q in unit.fn_lines:
        return q
    for pre in ("lemma::", "spec::"):
        if pre + parts[-1] in unit.fn_lines:
            return pre + parts[-1]
    # a trait default method instantiated at an implementor (R8): `Request::set_headers` is `MessageType::set_headers`
    cands = [x for x in unit.exec_fns if x.split("::")[-1] == parts[-1]]
    if len(cands) == 1:
        return cands[0]
    return None


def scan_trusted(text):
    """mechanical scan of the generated file for every unchecked assumption."""
    out = []
    m = rl.mask(text)
    lines = text.split("\n")
    mlines = m.split("\n")
    for i, ml in enumerate(mlines):
        for kw in ("assume(", "admit(", "assume_specification", "#[verifier::external_body]", "#[verifier::external]",
                   "#[verifier::external_fn_specification]", "uninterp spec fn", "#[verifier::external_type_specification]",
                   "axiom", "#[verifier::trusted]"):
            if kw in ml:
                # describe with the next non-attribute line
                j = i
                desc = lines[j].strip()
                if desc.startswith("#["):
                    k = j + 1
                    while k < len(lines) and lines[k].strip().startswith("#["):
                        k += 1
                    if k < len(lines):
                        desc = kw + " " + lines[k].strip()
                out.append(desc[:220])
    return out


def verify_unit(unit_path, baseline, tier="quick", repo=None):
    name = os.path.splitext(os.path.basename(unit_path))[0]
    res = UnitResult(name)
    t0 = time.time()
    bdir = os.path.join(BUILD, name)
    os.makedirs(bdir, exist_ok=True)
    try:
        variants = {}
        for mode in ("verify", "vac_fn"):
            u = extract.build(unit_path, mode)
            variants[mode] = u
            with open(os.path.join(bdir, {"verify": "unit.rs", "vac_fn": "vac_fn.rs"}[mode]), "w") as f:
                f.write(u.text)
        unit = variants["verify"]
        # one vacuity file per contracted loop ordinal (an assert(false) that fails hides the ones after it)
        max_k = max([k for (q, k) in unit.spec.loop_clauses] + [0])
        for k in range(1, max_k + 1):
            u = extract.build(unit_path, "vac_loop:%d" % k)
            variants["vac_loop:%d" % k] = u
            with open(os.path.join(bdir, "vac_loop%d.rs" % k), "w") as f:
                f.write(u.text)
        with open(os.path.join(bdir, "unit.diff"), "w") as f:
            f.write(unit.diff)
        with open(os.path.join(bdir, "rewrites.json"), "w") as f:
            json.dump(unit.rewrites, f, indent=1)
    except extract.Undecided as e:
        res.status = "undecided"
        res.undecided_reason = "extractor: %s" % e
        res.wall = time.time() - t0
        return res
    except rl.LexError as e:
        res.status = "undecided"
        res.undecided_reason = "extractor (lexer): %s" % e
        res.wall = time.time() - t0
        return res
    res.props = unit.spec.props
    res.obligations = list(unit.obligations)
    res.rewrites = unit.rewrites
    res.trusted = scan_trusted(unit.text) + ["unit-declared: " + t for t in unit.spec.trusted]
    res.notes = unit.spec.notes
    # ---- run the three files in parallel
    import concurrent.futures as cf
    jobs = {"verify": os.path.join(bdir, "unit.rs"), "vac_fn": os.path.join(bdir, "vac_fn.rs")}
    for k in range(1, max_k + 1):
        jobs["vac_loop:%d" % k] = os.path.join(bdir, "vac_loop%d.rs" % k)
    with cf.ThreadPoolExecutor(max_workers=4) as ex:
        futs = {k: ex.submit(run_verus, p) for k, p in jobs.items()}
        runs = {k: f.result() for k, f in futs.items()}
    r = runs["verify"]
    res.cmd = r["cmd"]
    with open(os.path.join(bdir, "verus.stderr"), "w") as f:
        f.write(r["stderr"])
    _classify(res, unit, r)
    # retry once with 4x rlimit when only limits were hit
    if res.status == "undecided" and res.undecided_reason and "rlimit" in res.undecided_reason:
        r2 = run_verus(jobs["verify"], rlimit=40)
        res2 = UnitResult(name)
        res2.obligations = res.obligations
        _classify(res2, unit, r2)
        if res2.status != "undecided":
            res.status, res.failed, res.unknown, res.undecided_reason, res.functions = res2.status, res2.failed, res2.unknown, res2.undecided_reason, res2.functions
            res.cmd = r2["cmd"]
    # ---- vacuity guards
    if res.status != "undecided":
        _vacuity(res, variants, runs)
    # samples: a few obligations written out with their clause text
    lines = unit.text.split("\n")
    for (a, b, q, label, kind) in unit.clause_lines[:6]:
        res.samples.append({"obligation": "%s::%s::%s" % (name, q, label), "kind": kind,
                            "clause": " ".join(x.strip() for x in lines[a - 1:b])[:400],
                            "source": "%s:%d-%d" % unit.fn_src.get(q, ("?", 0, 0))})
    # function table
    res.fn_src = unit.fn_src
    res.external_fns = unit.external_fns
    res.wall = time.time() - t0
    return res


def _classify(res, unit, r):
    js = r["json"]
    diags = [d for d in r["diags"] if d.get("level") == "error"]
    hard = []
    for d in diags:
        msg = d.get("message", "")
        if msg.startswith("aborting due to"):
            continue
        if _is_verif_failure(msg) or _is_limit(msg):
            continue
        hard.append(msg)
    if js is None or hard or (js.get("verification-results", {}).get("encountered-vir-error")):
        res.status = "undecided"
        why = hard[0] if hard else "no verifier output (rc=%s): %s" % (r["rc"], r["stderr"][-300:])
        res.undecided_reason = "verus front end rejected the unit (code left the verified subset or contract lost footing): %s" % why[:400]
        return
    vr = js["verification-results"]
    # function table
    fb = []
    for mod in js["times-ms"]["smt"].get("smt-run-module-times", []):
        fb += mod.get("function-breakdown", [])
    seen = {}
    for f in fb:
        q = _fn_of_json_name(unit, f["function"])
        if q is None:
            continue
        s = seen.setdefault(q, {"name": q, "smt_ms": 0, "rlimit": 0, "success": True, "mode": f.get("mode:", "")})
        s["smt_ms"] += f.get("time", 0)
        s["rlimit"] += f.get("rlimit", 0)
        s["success"] = s["success"] and f.get("success", False)
    res.smt_ms = js["times-ms"]["smt"].get("smt-run", 0)
    for q in unit.exec_fns:
        ent = seen.get(q, {"name": q, "smt_ms": 0, "rlimit": 0, "success": None, "mode": "exec"})
        rel, a, b = unit.fn_src.get(q, ("?", 0, 0))
        ent.update({"file": rel, "lines": [a, b], "backend": "verus/z3"})
        res.functions.append(ent)
    for pf in unit.proof_fns:
        ent = seen.get("lemma::" + pf)
        if ent:
            ent.update({"file": "(contract file)", "lines": [0, 0], "backend": "verus/z3"})
            res.functions.append(ent)
    # failures
    limit_fns = set()
    for d in diags:
        msg = d.get("message", "")
        if msg.startswith("aborting due to"):
            continue
        spans = d.get("spans", [])
        prim = [s for s in spans if s.get("is_primary")]
        sec = [s for s in spans if not s.get("is_primary")]
        site_fn = None
        clause_hit = None
        if "precondition not satisfied" in msg and prim:
            # primary span = the call site; secondary = the callee's failed requires clause
            q, label = _locate(unit, prim[0]["line_start"])
            site_fn = q
            if label == "proof_hints":
                clause_hit = (q, label)
            for s in sec:
                q2, l2 = _locate(unit, s["line_start"])
                if clause_hit is None and q2 is not None and q2 != site_fn:
                    clause_hit = (q2, l2 or "requires")
        else:
            # which function is being verified: the span that lies in a body (not in a clause)
            for s in prim + sec:
                q, label = _locate(unit, s["line_start"])
                if label is not None and clause_hit is None:
                    clause_hit = (q, label)
                if label is None and q is not None and site_fn is None:
                    site_fn = q
            if site_fn is None and clause_hit is not None:
                site_fn = clause_hit[0]
        if site_fn is None:
            site_fn = "?"
        if _is_limit(msg):
            limit_fns.add(site_fn)
            continue
        if clause_hit is not None and clause_hit[0] == site_fn:
            ob = "%s::%s::%s" % (res.name, site_fn, clause_hit[1])
        elif site_fn.startswith("lemma::"):
            ob = "%s::%s" % (res.name, site_fn)
        else:
            ob = "%s::%s::safety" % (res.name, site_fn)
        detail = {"message": msg, "rendered": (d.get("rendered") or "")[:3000],
                  "callee_clause": ("%s::%s" % clause_hit) if (clause_hit and clause_hit[0] != site_fn) else None}
        res.failed.setdefault(ob, []).append(detail)
    for q in limit_fns:
        for ob in res.obligations:
            if ob.startswith("%s::%s::" % (res.name, q)) or ob == "%s::%s" % (res.name, q):
                res.unknown[ob] = "rlimit"
    # functions reported unsuccessful without a mapped diagnostic
    for f in res.functions:
        if f["success"] is False:
            pre = "%s::%s" % (res.name, f["name"])
            if not any(o.startswith(pre) for o in list(res.failed) + list(res.unknown)):
                res.unknown[pre + "::safety"] = "function failed without a mapped diagnostic"
    missing = [f["name"] for f in res.functions if f["success"] is None]
    if res.unknown:
        res.status = "undecided"
        res.undecided_reason = "rlimit / unmapped failure in: %s" % ", ".join(sorted(res.unknown))
    elif res.failed:
        res.status = "failed"
    elif vr.get("errors", 0) != 0 or not vr.get("success"):
        res.status = "undecided"
        res.undecided_reason = "verifier reported errors that could not be mapped"
    elif missing:
        res.status = "undecided"
        res.undecided_reason = "functions not seen by the verifier: %s" % ", ".join(missing)
    else:
        res.status = "ok"
        res.verified_count = vr.get("verified", 0)


def _vacuity(res, variants, runs):
    # every contracted exec fn must FAIL on assert(false) at its entry; every contracted loop likewise
    def failing_fns(unit, r):
        out = set()
        for d in r["diags"]:
            if d.get("level") != "error" or "assertion failed" not in d.get("message", ""):
                continue
            for s in d.get("spans", []):
                if s.get("is_primary") and any("assert(false)" in t.get("text", "") for t in s.get("text", [])):
                    q, _ = _locate(unit, s["line_start"])
                    out.add((q, s["line_start"]))
        return out
    vf = failing_fns(variants["vac_fn"], runs["vac_fn"])
    reach = {q for q, _ in vf}
    vac = [q for q in variants["vac_fn"].exec_fns if q not in reach]
    res.vacuity["fn_entry_reachable"] = len(reach)
    res.vacuity["fn_entry_expected"] = len(variants["vac_fn"].exec_fns)
    if runs["vac_fn"]["json"] is None:
        vac = ["(vacuity file rejected by verus)"]
    loops_expected = 0
    loops_reached = 0
    spec_loops = variants["verify"].spec.loop_clauses
    for (q, k) in spec_loops:
        loops_expected += 1
        key = "vac_loop:%d" % k
        if key not in runs:
            vac.append("%s loop %d (no vacuity run)" % (q, k))
            continue
        hit = {qq for (qq, ln) in failing_fns(variants[key], runs[key])}
        if q in hit:
            loops_reached += 1
        else:
            vac.append("%s (loop %d body unreachable or invariant contradictory)" % (q, k))
    res.vacuity["loops_expected"] = loops_expected
    res.vacuity["loops_reached"] = loops_reached
    if vac:
        res.status = "undecided"
        res.undecided_reason = "vacuity guard: precondition/invariant contradictory or body unreachable in: %s" % ", ".join(vac)
