#!/usr/bin/env python3
"""tools/keep_seed.py <pid> <A|B> <worktree> <crate> "<needs>"  -- store a CONFIRMED seeded change under seeded/<pid>-<v>/"""
import json, os, shutil, sys
pid, v, wt, crate, needs = sys.argv[1:6]
src = os.path.join(wt, "_out", v)
dst = os.path.join("/verif/seeded", "%s-%s" % (pid, v))
os.makedirs(dst, exist_ok=True)
for f in ("patch.diff", "demo.diff", "README.md", "confirm.log"):
    shutil.copy(os.path.join(src, f), os.path.join(dst, f))
log = open(os.path.join(dst, "confirm.log")).read()
sec = log.split("== existing tests with patch")[1].split("== demo with patch")[0]
assert "test result: FAILED" not in sec and "test result: ok" in sec, "existing tests did not all pass with the patch"
demo_with = log.split("== demo with patch (expect FAIL)")[1].split("== demo without patch")[0]
demo_without = log.split("== demo without patch (expect PASS)")[1]
assert "FAILED" in demo_with, "demo does not fail with the patch"
assert "test result: ok" in demo_without and "FAILED" not in demo_without, "demo does not pass without the patch"
meta = {
    "property": pid,
    "variant": v,
    "crate": crate,
    "needs_to_manifest": needs,
    "origin": "independent sub-agent given only the property text and its own scratch worktree; confirmed by tools/confirm_seed.sh in that worktree",
    "what_was_run": ["git apply patch.diff; cargo test -p %s --offline --all-features --no-fail-fast  (existing tests, unedited): all passed" % crate,
                     "git apply demo.diff; cargo test (demo) with patch: FAILED", "git apply -R patch.diff; cargo test (demo) without patch: passed"],
    "confirm_log_excerpt": [l for l in log.split("\n") if l.startswith("test result") or l.startswith("==")][:40],
    "detected_by": None,
}
json.dump(meta, open(os.path.join(dst, "meta.json"), "w"), indent=1)
print("kept", dst)
