"""Kani component: harnesses compiled INTO the real crates through cfg(kani) hooks (DESIGN.md 2.6).

complete harnesses (loop-free / fixed-width, full input domain) count as discharged obligations;
bounded harnesses are reported under coverage.bounded_checks and never counted as proved.
"""
import concurrent.futures as cf
import os
import re
import subprocess
import time

VERIF = os.path.dirname(os.path.dirname(os.path.abspath(__file__)))
REPO = os.environ.get("VERIF_REPO", "/repo")
TARGET = os.path.join(VERIF, "build", "kani", "target")


def _run(h, extra=None, timeout=None):
    cmd = ["cargo", "kani", "-p", h["crate"], "--target-dir", TARGET + "_" + h["crate"].replace("-", "_"), "--harness", h["harness"]]
    if h.get("features"):
        cmd += ["--features", h["features"]]
    if h.get("zflags"):
        for z in h["zflags"]:
            cmd += ["-Z", z]
    if extra:
        cmd += extra
    env = dict(os.environ)
    env["CARGO_NET_OFFLINE"] = "true"
    env["ACTIX_VERIF_DIR"] = VERIF
    t0 = time.time()
    try:
        p = subprocess.run(cmd, cwd=REPO, env=env, stdout=subprocess.PIPE, stderr=subprocess.STDOUT, text=True,
                           timeout=timeout or h.get("timeout", 600))
        out = p.stdout
        rc = p.returncode
    except subprocess.TimeoutExpired as e:
        out = (e.stdout or "") if isinstance(e.stdout, str) else ""
        rc = -9
    return " ".join(cmd), rc, out, time.time() - t0


def _one(h):
    cmd, rc, out, wall = _run(h)
    res = {"name": h["harness"], "crate": h["crate"], "complete": h["kind"] == "complete", "kind": h["kind"], "bound": h.get("bound", ""),
           "what": h.get("what", ""), "cmd": cmd, "wall_s": round(wall, 1), "status": "undecided", "reason": "", "output_tail": out[-3000:]}
    if rc == -9:
        res["reason"] = "timeout after %ds" % h.get("timeout", 600)
    elif "VERIFICATION:- SUCCESSFUL" in out:
        res["status"] = "ok"
        m = re.search(r"\*\* 0 of (\d+) failed", out)
        res["checks"] = int(m.group(1)) if m else 0
        if h["kind"] == "bounded" and "unwinding assertion" in out and re.search(r"unwinding assertion[^\n]*\n[^\n]*FAILURE", out):
            res["status"] = "undecided"
            res["reason"] = "unwinding assertion failed: bound too small"
    elif "VERIFICATION:- FAILED" in out:
        fails = re.findall(r"Status: FAILURE\s*\n\s*- Description: \"([^\"]*)\"", out)
        unwind = [f for f in fails if "unwinding assertion" in f]
        if unwind and len(unwind) == len(fails):
            res["status"] = "undecided"
            res["reason"] = "only unwinding assertions failed: bound too small"
        else:
            res["status"] = "failed"
            res["reason"] = "; ".join(f for f in fails if "unwinding" not in f)[:500]
            # counterexample: concrete playback prints a unit test with the concrete values
            _, _, out2, _ = _run(h, extra=["-Z", "concrete-playback", "--concrete-playback=print"], timeout=h.get("timeout", 600))
            m = re.search(r"```\n(.*?)```", out2, re.S)
            if m:
                res["cex"] = {"concrete_playback_test": m.group(1)[:4000],
                              "note": "values Kani found; `cargo kani playback` or the harness itself runs them against the real function (the harness is compiled into the real crate)"}
    else:
        errs = [l for l in out.split("\n") if l.startswith("error")]
        res["reason"] = "kani/cargo did not produce a verdict (rc=%s): %s" % (rc, "; ".join(errs[:3])[:400])
    return res


def run_property(pid, P, tier):
    hs = [h for h in P.get("kani", []) if tier == "thorough" or h.get("quick", True)]
    results = []
    # group by crate so that each crate is compiled once; harnesses of a crate run sequentially, crates in parallel
    by_crate = {}
    for h in hs:
        by_crate.setdefault(h["crate"] + "|" + (h.get("features") or ""), []).append(h)

    def run_group(g):
        return [_one(h) for h in g]
    with cf.ThreadPoolExecutor(max_workers=4) as ex:
        for grp in ex.map(run_group, by_crate.values()):
            results += grp
    out = {"cmds": [r["cmd"] for r in results], "trusted": ["Kani 0.68 / CBMC 6.11 (bit-precise; unwinding assertions on)"] if results else [],
           "samples": [], "bounded": [], "functions": [], "harnesses": results}
    for r in results:
        if r["status"] == "ok":
            ent = {"harness": r["name"], "crate": r["crate"], "what": r["what"], "checks": r.get("checks", 0), "wall_s": r["wall_s"]}
            if r["complete"]:
                out["samples"].append({"obligation": "kani::" + r["name"], "kind": "kani complete harness", "clause": r["what"]})
                out["functions"].append({"name": r["what"].split(":")[0], "file": r["crate"], "lines": [0, 0], "backend": "kani/cbmc", "smt_ms": int(r["wall_s"] * 1000), "success": True, "unit": "kani:" + r["name"]})
            else:
                out["bounded"].append(dict(ent, bound=r["bound"], result="held within the bound (NOT counted as proved)"))
    return out


def replay(pid, body):
    import props
    P = props.PROPS[pid]
    for h in P.get("kani", []):
        if h["harness"] == body.get("harness"):
            r = _one(h)
            if r["status"] == "failed":
                print("REPLAY: harness %s still fails on the current tree: %s" % (h["harness"], r["reason"]))
                print("VIOLATION property=%s replay=%s" % (pid, body.get("_path", "?")))
                return 1
            if r["status"] == "ok":
                print("REPLAY: harness %s passes on the current tree" % h["harness"])
                return 0
            print("UNDECIDED %s" % r["reason"])
            return 2
    print("UNDECIDED harness not found")
    return 2
