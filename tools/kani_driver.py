"""Kani component (filled in later)."""


def run_property(pid, P, tier):
    return {"cmds": [], "trusted": [], "samples": [], "bounded": [], "functions": [], "harnesses": []}


def replay(pid, body):
    print("UNDECIDED kani replay not available")
    return 2
