// R17b: `str` / `String` as an opaque text with a Seq<char> view; the std string methods used get contracts over that
// view (assumed: they are the std semantics)
pub type Txt = Seq<char>;
#[verifier::external_body]
pub struct PStr { s: String }
impl View for PStr { type V = Seq<char>; uninterp spec fn view(&self) -> Seq<char>; }
pub trait Pat { spec fn pseq(&self) -> Seq<char>; }
impl Pat for char { open spec fn pseq(&self) -> Seq<char> { seq![*self] } }
impl Pat for &str { open spec fn pseq(&self) -> Seq<char> { self@ } }
impl Pat for &PStr { open spec fn pseq(&self) -> Seq<char> { self@ } }
impl Pat for &Box<PStr> { open spec fn pseq(&self) -> Seq<char> { self@ } }
pub open spec fn is_prefix_of(p: Txt, s: Txt) -> bool { p.len() <= s.len() && s.take(p.len() as int) == p }
pub open spec fn is_suffix_of(p: Txt, s: Txt) -> bool { p.len() <= s.len() && s.skip(s.len() - p.len()) == p }
impl PStr {
    #[verifier::external_body]
    pub fn len(&self) -> (r: usize) ensures r == self@.len() { unimplemented!() }
    #[verifier::external_body]
    pub fn is_empty(&self) -> (r: bool) ensures r == (self@.len() == 0) { unimplemented!() }
    #[verifier::external_body]
    pub fn starts_with<P: Pat>(&self, p: P) -> (r: bool) ensures r == is_prefix_of(p.pseq(), self@) { unimplemented!() }
    #[verifier::external_body]
    pub fn ends_with<P: Pat>(&self, p: P) -> (r: bool) ensures r == is_suffix_of(p.pseq(), self@) { unimplemented!() }
    #[verifier::external_body]
    pub fn strip_prefix<'a, P: Pat>(&'a self, p: P) -> (r: Option<&'a PStr>)
        ensures match r { Some(t) => is_prefix_of(p.pseq(), self@) && t@ == self@.skip(p.pseq().len() as int), None => !is_prefix_of(p.pseq(), self@) }
    { unimplemented!() }
}
