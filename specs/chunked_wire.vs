// ---- oracle (RFC 7230 section 4.1): chunk = chunk-size CRLF chunk-data CRLF ; last-chunk = "0" CRLF CRLF ----
pub open spec fn hex_digit_upper(d: nat) -> u8 { if d < 10 { (48 + d) as u8 } else { (55 + d) as u8 } }
pub open spec fn hex_upper(n: nat) -> Seq<u8>
    decreases n
{
    if n < 16 { seq![hex_digit_upper(n)] } else { hex_upper(n / 16).push(hex_digit_upper(n % 16)) }
}
pub open spec fn crlf() -> Seq<u8> { seq![13u8, 10u8] }
pub open spec fn last_chunk() -> Seq<u8> { seq![48u8, 13u8, 10u8, 13u8, 10u8] }
pub open spec fn wire_chunk(msg: Seq<u8>) -> Seq<u8> { hex_upper(msg.len()) + crlf() + msg + crlf() }
