use actix_http::ws::{Codec, Frame, Item, ProtocolError};
use bytes::BytesMut;
use tokio_util::codec::Decoder as _;

// client-role decoder reads unmasked server frames
#[test]
fn unfragmented_data_frame_inside_fragmented_message_is_rejected() {
    let mut codec = Codec::new().client_mode();
    let mut buf = BytesMut::new();
    buf.extend_from_slice(&[0x01, 0x01, b'a']); // Text, FIN=0  (start of fragmented message)
    buf.extend_from_slice(&[0x81, 0x01, b'b']); // Text, FIN=1  (a whole new message in between)
    match codec.decode(&mut buf) {
        Ok(Some(Frame::Continuation(Item::FirstText(_)))) => {}
        other => panic!("unexpected first frame: {:?}", other),
    }
    match codec.decode(&mut buf) {
        Err(ProtocolError::ContinuationStarted) => {}
        other => panic!("interleaved data message was not rejected: {:?}", other),
    }
}
