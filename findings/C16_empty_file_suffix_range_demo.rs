use actix_files::NamedFile;
use actix_web::{http::{header, StatusCode}, test::TestRequest};

/// finding C16/C19 (S5): a suffix Range on an EMPTY file selects zero bytes; `offset + length - 1`
/// underflows (panic with overflow checks, an impossible Content-Range without)
#[actix_web::test]
async fn suffix_range_on_empty_file_does_not_panic() {
    let dir = std::env::temp_dir().join(format!("verif_empty_{}", std::process::id()));
    std::fs::create_dir_all(&dir).unwrap();
    let path = dir.join("empty.txt");
    std::fs::write(&path, b"").unwrap();

    let req = TestRequest::default().insert_header((header::RANGE, "bytes=-5")).to_http_request();
    let file = NamedFile::open(&path).unwrap();
    let res = file.into_response(&req);
    let st = res.status();
    assert!(st == StatusCode::RANGE_NOT_SATISFIABLE || st == StatusCode::OK, "unexpected status {st}");
    if let Some(cr) = res.headers().get(header::CONTENT_RANGE) {
        assert_eq!(cr.to_str().unwrap(), "bytes */0");
    }
    std::fs::remove_dir_all(&dir).ok();
}
