// demonstration for finding C13 (fixed by the "fix: identity refused by the client is not chosen" commit): paste these two
// tests into the `tests` module of actix-web/src/http/header/accept_encoding.rs and run
// `cargo test -p actix-web --lib verif_identity`.
// Before the fix both FAIL: `Accept-Encoding: identity;q=0, *` (in either order) makes negotiate() answer
// Some(identity) although the field explicitly refuses identity (RFC 9110 12.5.3: identity is acceptable unless
// excluded by "identity;q=0", or by "*;q=0" WITHOUT a more specific entry for identity).  is_identity_acceptable
// returned at the first of "identity" / "*" in rank order, and "*" (q=1) ranks before "identity;q=0".
// After the fix both pass (nothing is chosen: the Compress middleware answers 406 as for any other unmatched field).

    #[test]
    fn verif_identity_excluded_but_wildcard_allows() {
        let test = AcceptEncoding(vec!["identity;q=0".parse().unwrap(), "*".parse().unwrap()]);
        let supported = [Encoding::identity(), Encoding::gzip()];
        let got = test.negotiate(supported.iter());
        eprintln!("negotiate(identity;q=0, *) over [identity,gzip] = {:?}", got);
        assert_ne!(got, Some(Encoding::identity()), "identity was explicitly refused");
    }
    #[test]
    fn verif_identity_excluded_but_wildcard_allows_2() {
        let test = AcceptEncoding(vec!["*".parse().unwrap(), "identity;q=0".parse().unwrap()]);
        let supported = [Encoding::identity()];
        let got = test.negotiate(supported.iter());
        eprintln!("negotiate(*, identity;q=0) over [identity] = {:?}", got);
        assert_ne!(got, Some(Encoding::identity()), "identity was explicitly refused");
    }

