// demonstration for finding C05 (fixed by the "fix: h1 dispatcher enforces the pipelined-message limit while decoding" commit):
// append this module to actix-http/src/h1/dispatcher.rs (it needs the crate-private Dispatcher internals) and run
// `cargo test -p actix-http --all-features --lib c05_pipelined`.
// Before the fix `pipelined_queue_is_bounded` FAILS: 200 pipelined requests arriving in one segment while the first
// handler is pending leave 199 requests in the queue (MAX_PIPELINED_MESSAGES = 16 was only checked on entry to
// poll_request, not inside its decode loop).  After the fix it passes (16 queued, the rest stays in the read buffer),
// and `all_pipelined_requests_are_answered` shows that all 200 are still answered, in order, with a handler that yields.

#[cfg(test)]
mod c05_pipelined_queue_demo {
    use std::task::Poll;

    use actix_rt::pin;
    use futures_util::future::lazy;

    use super::*;
    use crate::{
        config::ServiceConfig, h1::ExpectHandler, service::HttpFlow, test::TestBuffer,
        OnConnectData, Request, Response,
    };

    /// 200 pipelined requests arrive in one segment while the first handler never completes.
    #[actix_rt::test]
    async fn pipelined_queue_is_bounded() {
        let mut input = String::new();
        for i in 0..200 {
            input.push_str(&format!("GET /{} HTTP/1.1\r\n\r\n", i));
        }
        let buf = TestBuffer::new(input.as_str());
        let services = HttpFlow::new(
            actix_service::fn_service(|_req: Request| {
                futures_util::future::pending::<Result<Response<crate::body::BoxBody>, crate::Error>>()
            }),
            ExpectHandler,
            None,
        );
        let h1 = Dispatcher::<_, _, _, _, crate::h1::UpgradeHandler>::new(
            buf.clone(),
            services,
            ServiceConfig::default(),
            None,
            OnConnectData::default(),
        );
        pin!(h1);

        lazy(|cx| assert!(h1.as_mut().poll(cx).is_pending())).await;

        let DispatcherStateProj::Normal { inner } = h1.as_mut().project().inner.project() else {
            panic!("dispatcher state should be Normal");
        };
        let queued = inner.messages.len();
        eprintln!("queued pipelined requests after one poll: {}", queued);
        assert!(
            queued <= MAX_PIPELINED_MESSAGES,
            "pipelined queue holds {} requests (MAX_PIPELINED_MESSAGES = {})",
            queued,
            MAX_PIPELINED_MESSAGES
        );
    }

    /// with the limit enforced, all 200 pipelined requests are still answered, in order
    #[actix_rt::test]
    async fn all_pipelined_requests_are_answered() {
        let mut input = String::new();
        for i in 0..200 {
            input.push_str(&format!("GET /{} HTTP/1.1\r\n\r\n", i));
        }
        let buf = TestBuffer::new(input.as_str());
        let services = HttpFlow::new(
            actix_service::fn_service(|req: Request| {
                let path = req.path().to_owned();
                async move {
                    actix_rt::task::yield_now().await;
                    actix_rt::task::yield_now().await;
                    Ok::<_, crate::Error>(Response::ok().set_body(path))
                }
            }),
            ExpectHandler,
            None,
        );
        let h1 = Dispatcher::<_, _, _, _, crate::h1::UpgradeHandler>::new(
            buf.clone(),
            services,
            ServiceConfig::default(),
            None,
            OnConnectData::default(),
        );
        pin!(h1);

        for _ in 0..5000 {
            if let Poll::Ready(_) = lazy(|cx| h1.as_mut().poll(cx)).await {
                break;
            }
        }
        let out = buf.take_write_buf();
        let text = String::from_utf8_lossy(&out).into_owned();
        let n = text.matches("HTTP/1.1 200 OK").count();
        assert_eq!(n, 200, "answered {} of 200 pipelined requests", n);
        let mut from = 0;
        for i in 0..200 {
            let needle = format!("\r\n\r\n/{}", i);
            let at = text[from..].find(&needle).unwrap_or_else(|| panic!("response {} missing or out of order", i));
            from += at + needle.len();
        }
    }
}
