use std::{future::Future, sync::{atomic::{AtomicBool, Ordering}, Arc}, task::{Context, Poll}};

use actix_multipart::Multipart;
use actix_web::{error::PayloadError, http::header::{self, HeaderMap, HeaderValue}, web::Bytes};
use futures_util::{stream, task::{waker, ArcWake}, Stream, StreamExt as _};

const B: &str = "abbc761f78ff4d7cb7573b5a23f96ef0";

fn headers() -> HeaderMap {
    let mut headers = HeaderMap::new();
    headers.insert(header::CONTENT_TYPE, HeaderValue::from_str(&format!("multipart/form-data; boundary=\"{B}\"")).unwrap());
    headers
}

struct Flag(AtomicBool);
impl ArcWake for Flag { fn wake_by_ref(a: &Arc<Self>) { a.0.store(true, Ordering::SeqCst); } }

/// a stream that yields the given chunks with a Pending (and immediate self-wake) between any two
struct Chunks { items: Vec<Bytes>, next: usize, pend: bool }
impl Stream for Chunks {
    type Item = Result<Bytes, PayloadError>;
    fn poll_next(mut self: std::pin::Pin<&mut Self>, cx: &mut Context<'_>) -> Poll<Option<Self::Item>> {
        if self.pend { self.pend = false; cx.waker().wake_by_ref(); return Poll::Pending; }
        self.pend = true;
        if self.next < self.items.len() { let b = self.items[self.next].clone(); self.next += 1; Poll::Ready(Some(Ok(b))) } else { Poll::Ready(None) }
    }
}

async fn collect(chunks: Vec<Bytes>) -> Result<Vec<Vec<u8>>, String> {
    let mut mp = Multipart::new(&headers(), Chunks { items: chunks, next: 0, pend: false });
    let mut out = vec![];
    while let Some(f) = mp.next().await {
        let mut f = f.map_err(|e| format!("{e:?}"))?;
        let mut data = vec![];
        while let Some(c) = f.next().await { data.extend_from_slice(&c.map_err(|e| format!("field: {e:?}"))?); }
        out.push(data);
    }
    Ok(out)
}

fn drive(chunks: Vec<Bytes>) -> Result<Vec<Vec<u8>>, String> {
    let flag = Arc::new(Flag(AtomicBool::new(false)));
    let w = waker(flag.clone());
    let mut cx = Context::from_waker(&w);
    let mut fut = Box::pin(collect(chunks));
    for _ in 0..10_000 {
        match fut.as_mut().poll(&mut cx) {
            Poll::Ready(r) => return r,
            Poll::Pending => if !flag.0.swap(false, Ordering::SeqCst) { return Err("HANG: Pending with no wake-up".into()); }
        }
    }
    Err("no progress".into())
}

fn part_head() -> String { format!("--{B}\r\nContent-Disposition: form-data; name=\"f\"\r\n\r\n") }

/// finding 2: the buffer holds exactly "\r\n--" (first 4 bytes of the delimiter) when the field is polled
#[test]
fn four_byte_delimiter_prefix_is_not_content() {
    let head = part_head();
    let chunks = vec![Bytes::from(head), Bytes::from_static(b"data"), Bytes::from_static(b"\r\n--"), Bytes::from(format!("{B}--\r\n"))];
    assert_eq!(drive(chunks), Ok(vec![b"data".to_vec()]));
}

/// finding 3 (S4): the body is cut inside a delimiter candidate: must be an error, not a hang
#[test]
fn truncated_inside_delimiter_is_an_error() {
    let head = part_head();
    let chunks = vec![Bytes::from(head), Bytes::from_static(b"data"), Bytes::from_static(b"\r\n--abbc")];
    let r = drive(chunks);
    assert!(matches!(&r, Err(e) if !e.starts_with("HANG")), "got {r:?}");
}

/// finding 1: content containing CR "--" boundary (no LF) is a boundary look-alike, not a delimiter
#[test]
fn bare_cr_lookalike_is_content() {
    let head = part_head();
    let content = format!("abc\r--{B}xyz");
    let body = format!("{head}{content}\r\n--{B}--\r\n");
    let r = drive(vec![Bytes::from(body)]);
    assert_eq!(r, Ok(vec![content.into_bytes()]));
}
