use std::{convert::Infallible, io::{Read, Write}, net::TcpStream, time::Duration};

use actix_http::{HttpService, Request, Response};
use actix_http_test::test_server;

/// finding C02 (S1): GET followed by a pipelined HEAD in the same segment, while the GET handler is still
/// pending: the codec's HEAD flag now belongs to the second request and the GET response is encoded without
/// its body (content-length: 5, no bytes).
#[actix_rt::test]
async fn pipelined_head_does_not_strip_the_body_of_the_earlier_get() {
    let srv = test_server(|| {
        HttpService::build()
            .h1(|_req: Request| async {
                actix_rt::time::sleep(Duration::from_millis(200)).await;
                Ok::<_, Infallible>(Response::ok().set_body("hello"))
            })
            .tcp()
    })
    .await;
    let addr = srv.addr();
    let out = actix_rt::task::spawn_blocking(move || {
        let mut s = TcpStream::connect(addr).unwrap();
        s.write_all(b"GET /a HTTP/1.1\r\nhost: x\r\n\r\nHEAD /b HTTP/1.1\r\nhost: x\r\nconnection: close\r\n\r\n").unwrap();
        s.set_read_timeout(Some(Duration::from_secs(3))).unwrap();
        let mut buf = Vec::new();
        let _ = s.read_to_end(&mut buf);
        String::from_utf8_lossy(&buf).into_owned()
    })
    .await
    .unwrap();
    // first response (GET): must carry its 5 body bytes right after its head
    let first_head_end = out.find("\r\n\r\n").expect("no response head") + 4;
    assert!(out[first_head_end..].starts_with("hello"), "GET response lost its body; wire:\n{out}");
}
