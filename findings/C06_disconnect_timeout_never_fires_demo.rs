// demonstration for finding C06 (fixed by ec708f8): append this module to actix-http/src/h1/dispatcher.rs (it needs the crate-private
// Dispatcher / TestBuffer) and run `cargo test -p actix-http --all-features --lib c06_disconnect`.
// Before the fix: FAILED ("shutdown outlasted the disconnect timeout 6 times over; outcome: None"); after: ok.

#[cfg(test)]
mod c06_disconnect_timeout_demo {
    use std::{
        io,
        pin::Pin,
        task::{Context, Poll},
        time::Duration,
    };

    use actix_rt::{pin, time::sleep};
    use futures_util::future::lazy;
    use tokio::io::{AsyncRead, AsyncWrite, ReadBuf};

    use super::*;
    use crate::{
        config::ServiceConfig, error::DispatchError, h1::ExpectHandler, service::HttpFlow,
        test::TestBuffer, KeepAlive, OnConnectData, Request, Response,
    };

    /// a peer that never completes the TCP shutdown (stuck / malicious client)
    struct StuckShutdown(TestBuffer);
    impl AsyncRead for StuckShutdown {
        fn poll_read(mut self: Pin<&mut Self>, cx: &mut Context<'_>, buf: &mut ReadBuf<'_>) -> Poll<io::Result<()>> {
            Pin::new(&mut self.0).poll_read(cx, buf)
        }
    }
    impl AsyncWrite for StuckShutdown {
        fn poll_write(mut self: Pin<&mut Self>, cx: &mut Context<'_>, buf: &[u8]) -> Poll<io::Result<usize>> {
            Pin::new(&mut self.0).poll_write(cx, buf)
        }
        fn poll_flush(mut self: Pin<&mut Self>, cx: &mut Context<'_>) -> Poll<io::Result<()>> {
            Pin::new(&mut self.0).poll_flush(cx)
        }
        fn poll_shutdown(self: Pin<&mut Self>, _: &mut Context<'_>) -> Poll<io::Result<()>> {
            Poll::Pending
        }
    }

    /// finding C06: keep-alive expires (100 ms), a disconnect timeout of 500 ms is configured, the peer never
    /// completes the shutdown.  The shutdown must not outlast the disconnect timeout: within ~600 ms of idling the
    /// dispatcher has to give up with DisconnectTimeout.  It never does: the expired keep-alive timer stays armed
    /// and re-arms the shutdown timer with a fresh deadline on every poll.
    #[actix_rt::test]
    async fn shutdown_does_not_outlast_the_disconnect_timeout() {
        let buf = TestBuffer::new("GET /abcd HTTP/1.1\r\n\r\n");
        let cfg = ServiceConfig::new(
            KeepAlive::Timeout(Duration::from_millis(100)),
            Duration::from_millis(100),
            Duration::from_millis(500),
            false,
            None,
        );
        let services = HttpFlow::new(
            actix_service::fn_service(|_req: Request| actix_utils::future::ready(Ok::<_, crate::Error>(Response::ok()))),
            ExpectHandler,
            None,
        );
        let h1 = Dispatcher::<_, _, _, _, crate::h1::UpgradeHandler>::new(
            StuckShutdown(buf.clone()),
            services,
            cfg,
            None,
            OnConnectData::default(),
        );
        pin!(h1);

        lazy(|cx| assert!(h1.as_mut().poll(cx).is_pending())).await;

        // idle; poll every 50 ms for 3 s (6 x the disconnect timeout)
        let mut outcome = None;
        for _ in 0..60 {
            sleep(Duration::from_millis(50)).await;
            let r = lazy(|cx| h1.as_mut().poll(cx)).await;
            if let Poll::Ready(r) = r {
                outcome = Some(r);
                break;
            }
        }
        match outcome {
            Some(Err(DispatchError::DisconnectTimeout)) => {}
            other => panic!("shutdown outlasted the disconnect timeout 6 times over; outcome: {:?}", other.map(|r| r.map_err(|e| e.to_string()))),
        }
    }
}
