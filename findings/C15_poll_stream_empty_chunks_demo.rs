
use actix_multipart::Multipart;
use actix_web::{
    error::PayloadError,
    http::header::{self, HeaderMap, HeaderValue},
    web::Bytes,
};
use futures_util::{stream, StreamExt as _};

const BODY: &[u8] = b"--abbc761f78ff4d7cb7573b5a23f96ef0\r\n\
Content-Disposition: form-data; name=\"one\"\r\n\
\r\n\
one+one+one\r\n\
--abbc761f78ff4d7cb7573b5a23f96ef0--\r\n";

fn headers() -> HeaderMap {
    let mut headers = HeaderMap::new();
    headers.insert(
        header::CONTENT_TYPE,
        HeaderValue::from_static("multipart/form-data; boundary=\"abbc761f78ff4d7cb7573b5a23f96ef0\""),
    );
    headers
}

async fn run(empty: usize) -> Result<usize, String> {
    // `empty` immediately-ready EMPTY chunks, then the whole body, never Pending
    let mut chunks: Vec<Result<Bytes, PayloadError>> = (0..empty).map(|_| Ok(Bytes::new())).collect();
    chunks.push(Ok(Bytes::from_static(BODY)));
    let mut multipart = Multipart::new(&headers(), stream::iter(chunks));
    let mut n = 0;
    while let Some(field) = multipart.next().await {
        let mut field = field.map_err(|e| format!("{e:?}"))?;
        while let Some(chunk) = field.next().await {
            chunk.map_err(|e| format!("{e:?}"))?;
        }
        n += 1;
    }
    Ok(n)
}


use std::{future::Future, sync::{atomic::{AtomicBool, Ordering}, Arc}, task::{Context, Poll}};
use futures_util::task::{waker, ArcWake};
struct Flag(AtomicBool);
impl ArcWake for Flag { fn wake_by_ref(a: &Arc<Self>) { a.0.store(true, Ordering::SeqCst); } }

/// Drive the parser by hand: a poll that returns Pending must have arranged a wake-up
/// (the input stream is always ready, so nobody else will).
fn drive(empty: usize) -> Result<usize, String> {
    let flag = Arc::new(Flag(AtomicBool::new(false)));
    let w = waker(flag.clone());
    let mut cx = Context::from_waker(&w);
    let mut fut = Box::pin(run(empty));
    for _ in 0..1000 {
        match fut.as_mut().poll(&mut cx) {
            Poll::Ready(r) => return r,
            Poll::Pending => {
                if !flag.0.swap(false, Ordering::SeqCst) {
                    return Err("Pending without any wake-up arranged: the parser stalls".into());
                }
            }
        }
    }
    Err("no progress after 1000 polls".into())
}

#[test]
fn few_empty_chunks() {
    assert_eq!(drive(3), Ok(1));
}

#[test]
fn sixteen_empty_chunks_then_body() {
    assert_eq!(drive(16), Ok(1));
}
