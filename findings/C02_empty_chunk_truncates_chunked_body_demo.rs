use std::{convert::Infallible, pin::Pin, task::{Context, Poll}};

use actix_http::{body::{BodySize, MessageBody}, HttpService, Request, Response};
use actix_http_test::test_server;
use actix_utils::future::ok;
use bytes::Bytes;

/// a handler body that yields "a", then an EMPTY chunk, then "b"
struct Chunks(Vec<Bytes>);
impl MessageBody for Chunks {
    type Error = Infallible;
    fn size(&self) -> BodySize { BodySize::Stream }
    fn poll_next(mut self: Pin<&mut Self>, _: &mut Context<'_>) -> Poll<Option<Result<Bytes, Infallible>>> {
        if self.0.is_empty() { Poll::Ready(None) } else { Poll::Ready(Some(Ok(self.0.remove(0)))) }
    }
}

#[actix_rt::test]
async fn empty_chunk_in_the_middle_does_not_truncate_the_body() {
    let mut srv = test_server(|| {
        HttpService::build()
            .h1(|_req: Request| ok::<_, Infallible>(Response::ok().set_body(Chunks(vec![Bytes::from_static(b"a"), Bytes::new(), Bytes::from_static(b"b")]))))
            .tcp()
    }).await;
    let res = srv.get("/").send().await.unwrap();
    let body = srv.load_body(res).await.unwrap();
    assert_eq!(body, Bytes::from_static(b"ab"));
    srv.stop().await;
}
