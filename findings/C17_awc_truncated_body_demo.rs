use std::io::{Read, Write};
use std::net::TcpListener;

fn serve_once(response: &'static [u8]) -> std::net::SocketAddr {
    let lst = TcpListener::bind("127.0.0.1:0").unwrap();
    let addr = lst.local_addr().unwrap();
    std::thread::spawn(move || {
        let (mut s, _) = lst.accept().unwrap();
        let mut buf = [0u8; 2048];
        let _ = s.read(&mut buf);
        s.write_all(response).unwrap();
        s.flush().unwrap();
        // close the connection before the framed length is reached
        drop(s);
    });
    addr
}

#[actix_rt::test]
async fn content_length_body_cut_short_is_an_error() {
    let addr = serve_once(b"HTTP/1.1 200 OK\r\ncontent-length: 10\r\n\r\nabc");
    let client = awc::Client::default();
    let mut res = client.get(format!("http://{addr}/")).send().await.unwrap();
    let body = res.body().await;
    assert!(body.is_err(), "truncated body (3 of 10 bytes) delivered as a success: {:?}", body);
}

#[actix_rt::test]
async fn chunked_body_cut_short_is_an_error() {
    let addr = serve_once(b"HTTP/1.1 200 OK\r\ntransfer-encoding: chunked\r\n\r\n5\r\nhello\r\n");
    let client = awc::Client::default();
    let mut res = client.get(format!("http://{addr}/")).send().await.unwrap();
    let body = res.body().await;
    assert!(body.is_err(), "truncated chunked body (no last-chunk) delivered as a success: {:?}", body);
}
