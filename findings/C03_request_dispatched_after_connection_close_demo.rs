use std::{convert::Infallible, io::{Read, Write}, net::TcpStream, sync::{atomic::{AtomicUsize, Ordering}, Arc}, time::Duration};

use actix_http::{HttpService, Request, Response};
use actix_http_test::test_server;

/// finding C03: two requests pipelined in one segment, the first one asks for `connection: close`.
/// The response to the first request announces `connection: close`, yet the second request is still
/// dispatched to the service and its response is written on the same connection.
/// (The repository's own test h1::dispatcher_tests::pipelining_ok_then_ok pins the same behaviour for
/// KeepAlive::Disabled: it expects two responses that both carry `connection: close`.)
#[actix_rt::test]
async fn nothing_is_dispatched_or_written_after_a_response_announced_close() {
    let calls = Arc::new(AtomicUsize::new(0));
    let calls2 = calls.clone();
    let srv = test_server(move || {
        let calls = calls2.clone();
        HttpService::build()
            .h1(move |_req: Request| {
                calls.fetch_add(1, Ordering::SeqCst);
                async { Ok::<_, Infallible>(Response::ok().set_body("hello")) }
            })
            .tcp()
    })
    .await;
    let addr = srv.addr();
    let out = actix_rt::task::spawn_blocking(move || {
        let mut s = TcpStream::connect(addr).unwrap();
        s.write_all(b"GET /a HTTP/1.1\r\nhost: x\r\nconnection: close\r\n\r\nGET /b HTTP/1.1\r\nhost: x\r\n\r\n").unwrap();
        s.set_read_timeout(Some(Duration::from_secs(3))).unwrap();
        let mut buf = Vec::new();
        let _ = s.read_to_end(&mut buf);
        String::from_utf8_lossy(&buf).into_owned()
    })
    .await
    .unwrap();
    let first_head_end = out.find("\r\n\r\n").expect("no response head") + 4;
    assert!(out[..first_head_end].contains("connection: close"), "first response does not announce close; wire:\n{out}");
    let responses = out.matches("HTTP/1.1 200 OK").count();
    assert_eq!((responses, calls.load(Ordering::SeqCst)), (1, 1), "after `connection: close` another request was dispatched / answered; wire:\n{out}");
}
