// Kani harness compiled into actix-files' `path_buf` module (cfg(kani) only).  BOUNDED stand-in.

fn sym_byte() -> u8 {
    // alphabet that exercises every branch: separators, dots, percent escapes of '/' and '.', a plain letter
    let c: u8 = kani::any();
    kani::assume(c < 8);
    match c { 0 => b'/', 1 => b'.', 2 => b'%', 3 => b'2', 4 => b'f', 5 => b'F', 6 => b'e', _ => b'a' }
}

macro_rules! parse_path_bounded {
    ($name:ident, $n:expr) => {
        /// BOUNDED: every string of this length over the alphabet above: parse_path never panics (its two
        /// assert!s hold) and an accepted path has only Normal components, none of them "." or ".."
        #[kani::proof]
        #[kani::unwind(12)]
        fn $name() {
            let mut buf = [0u8; $n];
            let mut i = 0;
            while i < $n { buf[i] = sym_byte(); i += 1; }
            let s = core::str::from_utf8(&buf).unwrap();
            if let Ok(p) = PathBufWrap::parse_path(s, true) {
                for c in p.0.components() {
                    match c {
                        Component::Normal(x) => { assert!(x != ".." && x != "."); }
                        _ => { assert!(false); }
                    }
                }
            }
        }
    };
}
parse_path_bounded!(kb_parse_path_len3, 3);
parse_path_bounded!(kb_parse_path_len4, 4);
