// Kani harnesses compiled INTO actix-http's `h1::encoder` module (cfg(kani) only).
// BOUNDED: header names of at most 8 bytes (all contents).

/// reference for HTTP/1 "Camel-Case" header rendering: upper-case an ASCII lower-case letter at a word start
fn c_if(up: bool, c: u8) -> u8 { if up && c.is_ascii_lowercase() { c & 0b1101_1111 } else { c } }
/// position i is upper-cased iff it is the first byte, or the byte after a '-' that was itself read as a separator
/// (the scanner reads bytes left to right; after a '-' it consumes the next byte as "first of a word")
fn boundary_at(v: &[u8], i: usize) -> bool {
    // replay the scanner's notion of separators
    let mut k = 1usize;          // position the scanner looks at next (position 0 is handled up front)
    let mut up = i == 0;
    while k < v.len() {
        if v[k] == b'-' {
            if k + 1 == i { up = true; }
            k += 2;
        } else {
            k += 1;
        }
    }
    up
}

/// BOUNDED (len <= 8): write_camel_case writes exactly `len` bytes inside the buffer (no out-of-bounds index, CBMC
/// pointer checks on), and the result is the reference camel-case rendering of the name
#[kani::proof]
#[kani::unwind(10)]
fn kb_write_camel_case_len8() {
    let src: [u8; 8] = kani::any();
    let len: usize = kani::any();
    kani::assume(len <= 8);
    let mut out = [0u8; 10];
    out[8] = 0xAA;
    out[9] = 0x55;
    let value = &src[..len];
    unsafe { write_camel_case(value, out.as_mut_ptr(), len) };
    // nothing beyond len is touched
    assert!(out[8] == 0xAA && out[9] == 0x55);
    let i: usize = kani::any();
    kani::assume(i < len);
    assert!(out[i] == c_if(boundary_at(value, i), value[i]));
}
