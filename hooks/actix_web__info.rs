// Kani harnesses compiled INTO actix-web's `info` module (cfg(kani) only): the Forwarded / X-Forwarded-*
// parameter helpers are fed arbitrary (valid UTF-8) peer-controlled text.  BOUNDED: text length <= the stated bound.

fn any_str<const N: usize>(buf: &mut [u8; N]) -> &str {
    *buf = kani::any();
    let len: usize = kani::any();
    kani::assume(len <= N);
    match std::str::from_utf8(&buf[..len]) {
        Ok(s) => s,
        Err(_) => {
            kani::assume(false);
            ""
        }
    }
}

/// BOUNDED (len <= 3): unquote never panics (slice index, char boundary, overflow) and returns a sub-slice of its input
#[kani::proof]
#[kani::unwind(6)]
fn kb_unquote_len3() {
    let mut buf = [0u8; 3];
    let s = any_str(&mut buf);
    let r = unquote(s);
    assert!(r.len() <= s.len());
}

/// BOUNDED (len <= 4): as above, one byte longer (thorough tier)
#[kani::proof]
#[kani::unwind(7)]
fn kb_unquote_len4() {
    let mut buf = [0u8; 4];
    let s = any_str(&mut buf);
    let r = unquote(s);
    assert!(r.len() <= s.len());
}

/// BOUNDED (len <= 3): bare_address never panics and returns a sub-slice of its input
#[kani::proof]
#[kani::unwind(6)]
fn kb_bare_address_len3() {
    let mut buf = [0u8; 3];
    let s = any_str(&mut buf);
    let r = bare_address(s);
    assert!(r.len() <= s.len());
}

/// BOUNDED (len <= 4): bare_address, one byte longer (thorough tier)
#[kani::proof]
#[kani::unwind(7)]
fn kb_bare_address_len4() {
    let mut buf = [0u8; 4];
    let s = any_str(&mut buf);
    let r = bare_address(s);
    assert!(r.len() <= s.len());
}
