// Kani harnesses compiled INTO actix-router's `quoter` module (cfg(kani) only), so they reach the real
// private functions.  K-real/complete = loop-free over the full input domain; K-real/bounded = stated bound.

/// spec: value of one hex digit
fn hex_val(b: u8) -> Option<u8> {
    match b {
        b'0'..=b'9' => Some(b - b'0'),
        b'a'..=b'f' => Some(b - b'a' + 10),
        b'A'..=b'F' => Some(b - b'A' + 10),
        _ => None,
    }
}

/// COMPLETE: hex_pair_to_char over all 65536 byte pairs equals the positional hex value, None otherwise
#[kani::proof]
fn kc_hex_pair_to_char_full_domain() {
    let d1: u8 = kani::any();
    let d2: u8 = kani::any();
    let got = hex_pair_to_char(d1, d2);
    let want = match (hex_val(d1), hex_val(d2)) {
        (Some(h), Some(l)) => Some(h * 16 + l),
        _ => None,
    };
    assert!(got == want);
}

/// COMPLETE: AsciiBitmap set/get agree for every pair of ASCII bytes; other bits untouched
#[kani::proof]
fn kc_ascii_bitmap_set_get() {
    let mut bm = AsciiBitmap::default();
    bm.array = kani::any();
    let before = bm.clone();
    let ch: u8 = kani::any();
    let other: u8 = kani::any();
    kani::assume(ch < 128 && other < 128);
    bm.set_bit(ch);
    assert!(bm.bit_at(ch));
    if other != ch {
        assert!(bm.bit_at(other) == before.bit_at(other));
    }
}

/// BOUNDED harnesses: Quoter::requote against the reference "decode every valid, non-protected %XY and
/// nothing else; None iff nothing was decoded", for EVERY byte string of the given length.  The reference is
/// evaluated on the fly (no allocation on the specification side).
macro_rules! requote_bounded {
    ($name:ident, $n:expr) => {
        #[kani::proof]
        #[kani::unwind(7)]
        fn $name() {
            let q = Quoter::new(b"", b"%/+");
            let buf: [u8; $n] = kani::any();
            let got = q.requote(&buf);
            let mut i = 0usize;
            let mut j = 0usize;
            let mut any = false;
            while i < $n {
                let mut expect = buf[i];
                let mut step = 1;
                if buf[i] == b'%' && i + 2 < $n {
                    if let (Some(h), Some(l)) = (hex_val(buf[i + 1]), hex_val(buf[i + 2])) {
                        let ch = h * 16 + l;
                        if !(ch < 128 && q.protected_table.bit_at(ch)) {
                            expect = ch;
                            step = 3;
                            any = true;
                        }
                    }
                }
                if let Some(v) = &got {
                    assert!(j < v.len());
                    assert!(v[j] == expect);
                }
                i += step;
                j += 1;
            }
            match got {
                None => { assert!(!any); }
                Some(v) => { assert!(any); assert!(v.len() == j); }
            }
        }
    };
}
requote_bounded!(kb_requote_len3, 3);
requote_bounded!(kb_requote_len4, 4);
requote_bounded!(kb_requote_len5, 5);
