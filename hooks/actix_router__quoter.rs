// Kani harnesses compiled INTO actix-router's `quoter` module (cfg(kani) only), so they reach the real
// private functions.  K-real/complete = loop-free over the full input domain; K-real/bounded = stated bound.

/// spec: value of one hex digit
fn hex_val(b: u8) -> Option<u8> {
    match b {
        b'0'..=b'9' => Some(b - b'0'),
        b'a'..=b'f' => Some(b - b'a' + 10),
        b'A'..=b'F' => Some(b - b'A' + 10),
        _ => None,
    }
}

/// COMPLETE: hex_pair_to_char over all 65536 byte pairs equals the positional hex value, None otherwise
#[kani::proof]
fn kc_hex_pair_to_char_full_domain() {
    let d1: u8 = kani::any();
    let d2: u8 = kani::any();
    let got = hex_pair_to_char(d1, d2);
    let want = match (hex_val(d1), hex_val(d2)) {
        (Some(h), Some(l)) => Some(h * 16 + l),
        _ => None,
    };
    assert!(got == want);
}

/// COMPLETE: AsciiBitmap set/get agree for every pair of ASCII bytes; other bits untouched
#[kani::proof]
fn kc_ascii_bitmap_set_get() {
    let mut bm = AsciiBitmap::default();
    bm.array = kani::any();
    let before = bm.clone();
    let ch: u8 = kani::any();
    let other: u8 = kani::any();
    kani::assume(ch < 128 && other < 128);
    bm.set_bit(ch);
    assert!(bm.bit_at(ch));
    if other != ch {
        assert!(bm.bit_at(other) == before.bit_at(other));
    }
}

/// reference decoder (written from the property: decode every valid, non-protected %XY and nothing else)
fn spec_requote(q: &Quoter, val: &[u8]) -> (Vec<u8>, bool) {
    let mut out = Vec::new();
    let mut any = false;
    let mut i = 0;
    while i < val.len() {
        if val[i] == b'%' && i + 2 < val.len() + 0 && i + 2 <= val.len() - 1 {
            if let (Some(h), Some(l)) = (hex_val(val[i + 1]), hex_val(val[i + 2])) {
                let ch = h * 16 + l;
                if !(ch < 128 && q.protected_table.bit_at(ch)) {
                    out.push(ch);
                    any = true;
                    i += 3;
                    continue;
                }
            }
        }
        out.push(val[i]);
        i += 1;
    }
    (out, any)
}

macro_rules! requote_bounded {
    ($name:ident, $n:expr) => {
        /// BOUNDED: Quoter::requote against the reference decoder for every byte string of this length
        #[kani::proof]
        #[kani::unwind(8)]
        fn $name() {
            let q = Quoter::new(b"", b"%/+");
            let buf: [u8; $n] = kani::any();
            let got = q.requote(&buf);
            let (want, any) = spec_requote(&q, &buf);
            match got {
                None => { assert!(!any); }
                Some(v) => {
                    assert!(any);
                    assert!(v == want);
                }
            }
        }
    };
}
requote_bounded!(kb_requote_len3, 3);
requote_bounded!(kb_requote_len4, 4);
