// Kani harnesses compiled INTO actix-http's `ws::mask` module (cfg(kani) only).
// BOUNDED: buffers of at most 16 bytes (all contents, all four alignments of the slice start, all masks).

#[repr(align(4))]
struct Aligned([u8; 20]);

/// BOUNDED (len <= 16): apply_mask (unsafe align_to_mut fast path) == per-byte XOR with mask[i % 4],
/// nothing outside the slice is touched, no out-of-bounds access
#[kani::proof]
#[kani::unwind(18)]
fn kb_apply_mask_len16() {
    let mut a = Aligned(kani::any());
    let orig = a.0;
    let mask: [u8; 4] = kani::any();
    let off: usize = kani::any();
    let len: usize = kani::any();
    kani::assume(off <= 3 && len <= 16);
    apply_mask(&mut a.0[off..off + len], mask);
    let i: usize = kani::any();
    kani::assume(i < 20);
    if i >= off && i < off + len {
        assert!(a.0[i] == orig[i] ^ mask[(i - off) & 3]);
    } else {
        assert!(a.0[i] == orig[i]);
    }
}
